#!/usr/bin/env python3-vt
"""Design-phase probe (NOT part of the verification machinery; see DESIGN.md section 0).

Interprets the MIR of <Linear as Evaluate>::evaluate symbolically (z3 reals).
Expects the dump at /root/probe/ommx.mir, produced by:
  cd /repo/rust/ommx && touch src/lib.rs && CARGO_TARGET_DIR=/root/probe/mir_tgt \
    cargo +nightly rustc --offline --lib -- -Zunpretty=mir -C debug-assertions=off -C overflow-checks=on > /root/probe/ommx.mir
Result on the pinned tree: paths=40 queries=80 time=0.26s all unsat.
"""
import re, sys, itertools
from z3 import *

MIR = open('/root/probe/ommx.mir').read()

def get_fn(prefix):
    i = MIR.index('\nfn ' + prefix)
    j = MIR.index('\n}\n', i)
    return MIR[i+1:j+2]

# ---------- parsing ----------
def split_top(s, sep=','):
    out, depth, cur = [], 0, ''
    i = 0
    while i < len(s):
        ch = s[i]
        if ch in '([{<':
            # '<' only counts as bracket if part of a type; in operands we rarely see bare '<'
            depth += 1
        elif ch in ')]}>':
            if ch == '>' and i > 0 and s[i-1] in '-=':
                pass
            else:
                depth -= 1
        if ch == sep and depth == 0:
            out.append(cur.strip()); cur = ''
        else:
            cur += ch
        i += 1
    if cur.strip(): out.append(cur.strip())
    return out

class Fn: pass

def parse_fn(text):
    f = Fn(); f.blocks = {}
    hdr = text.split('\n', 1)[0]
    f.nargs = len(re.findall(r'_\d+: ', hdr.split(') ->')[0]))
    cur = None
    for line in text.split('\n')[1:]:
        s = line.strip()
        m = re.match(r'bb(\d+)( \(cleanup\))?: \{', s)
        if m:
            cur = int(m.group(1)); f.blocks[cur] = []; continue
        if cur is None or s in ('', '}'):
            if s == '}': cur = None if line.startswith('    }') else cur
            continue
        f.blocks[cur].append(s.rstrip(';'))
    return f

# places: returns list of projection steps applied to a local
def parse_place(s):
    s = s.strip()
    m = re.fullmatch(r'_(\d+)', s)
    if m: return ('local', int(m.group(1)))
    if s.startswith('(*') and s.endswith(')'):
        return ('deref', parse_place(s[2:-1]))
    if s.startswith('(') and s.endswith(')'):
        inner = s[1:-1]
        # (P.N: T)  or (P as Variant)
        m = re.match(r'(.*) as (\w+)$', inner)
        if m and ':' not in inner.split(' as ')[-1]:
            return ('downcast', parse_place(m.group(1)), m.group(2))
        # find ".N: " at top level from the right
        depth = 0
        for i, ch in enumerate(inner):
            if ch in '(<[': depth += 1
            elif ch in ')>]': depth -= 1
            elif ch == ':' and depth == 0 and inner[i+1] == ' ':
                left = inner[:i]
                k = left.rindex('.')
                return ('field', parse_place(left[:k]), int(left[k+1:]))
    raise Exception('place? ' + s)

# ---------- values ----------
class Ref:
    def __init__(self, get, set): self.get, self.set = get, set
class Enum:
    def __init__(self, variant, fields): self.variant, self.fields = variant, list(fields)
    def __repr__(self): return f'{self.variant}{self.fields}'
class Struct:
    def __init__(self, fields): self.fields = list(fields)
class PyIter:
    def __init__(self, items): self.items, self.i = items, 0

VARIANT_IDX = {'None': 0, 'Some': 1, 'Ok': 0, 'Err': 1, 'Continue': 0, 'Break': 1}

class Path(Exception): pass

class Interp:
    def __init__(self, solver):
        self.s = solver
    def place_ref(self, frame, p):
        k = p[0]
        if k == 'local':
            n = p[1]
            return Ref(lambda: frame[n], lambda v: frame.__setitem__(n, v))
        if k == 'deref':
            r = self.place_ref(frame, p[1]).get()
            assert isinstance(r, Ref), r
            return r
        if k == 'field':
            base = self.place_ref(frame, p[1])
            idx = p[2]
            def g():
                b = base.get()
                return b.fields[idx] if not isinstance(b, tuple) else b[idx]
            def st(v): base.get().fields[idx] = v
            return Ref(g, st)
        if k == 'downcast':
            return self.place_ref(frame, p[1])
        raise Exception(p)
    def operand(self, frame, s):
        s = s.strip()
        if s.startswith('copy ') or s.startswith('move '):
            return self.place_ref(frame, parse_place(s[5:])).get()
        if s.startswith('no_retag '):
            return self.operand(frame, s[9:])
        if s.startswith('const '):
            c = s[6:]
            m = re.fullmatch(r'(-?[\d_]+)_(u|i)(\d+|size)', c)
            if m: return int(m.group(1).replace('_', ''))
            m = re.fullmatch(r'(-?[\d.eE+-]+)f64', c)
            if m: return RealVal(m.group(1))
            raise Exception('const? ' + c)
        raise Exception('operand? ' + s)
    def rvalue(self, frame, s):
        s = s.strip()
        if s.startswith('&mut '): return self.place_ref(frame, parse_place(s[5:]))
        if s.startswith('&'): return self.place_ref(frame, parse_place(s[1:]))
        m = re.match(r'(Add|Sub|Mul|Lt|Le|Gt|Ge|Eq|Ne)\((.*)\)$', s)
        if m:
            a, b = [self.operand(frame, x) for x in split_top(m.group(2))]
            return {'Add': lambda: a + b, 'Sub': lambda: a - b, 'Mul': lambda: a * b}[m.group(1)]()
        m = re.match(r'discriminant\((.*)\)$', s)
        if m:
            v = self.place_ref(frame, parse_place(m.group(1))).get()
            return VARIANT_IDX[v.variant]
        if s.startswith('(') and not s.startswith('(*') and ':' not in s.split(',')[0]:
            return Struct([self.operand(frame, x) for x in split_top(s[1:-1])])
        m = re.match(r'std::result::Result::<.*>::(Ok|Err)\((.*)\)$', s)
        if m: return Enum(m.group(1), [self.operand(frame, m.group(2))])
        m = re.match(r'\{closure@[^}]*\} \{(.*)\}$', s)
        if m: return ('closure', s)
        return self.operand(frame, s)

    # library models
    def call(self, frame, callee, args):
        A = [self.operand(frame, a) for a in args]
        if callee == 'BTreeSet::<u64>::new': return ('btreeset', [])
        if callee.startswith('<&Vec<') and callee.endswith('into_iter'):
            return PyIter(A[0].get())
        if callee.endswith('as std::iter::Iterator>::next') and callee.startswith('<std::slice::Iter'):
            it = A[0].get()
            if it.i < len(it.items):
                lst, i = it.items, it.i; it.i += 1
                return Enum('Some', [Ref(lambda: lst[i], lambda v: lst.__setitem__(i, v))])
            return Enum('None', [])
        if callee == 'BTreeSet::<u64>::insert':
            st = A[0].get(); st[1].append(A[1]); return True
        if callee.startswith('HashMap::<u64, f64>::get'):
            m = A[0].get(); key = A[1].get()
            # m: list of (key, present_bool, value) symbolic entries; fork over which entry matches
            for (k, present, val) in m:
                cond = And(present, k == key) if not isinstance(k == key, bool) else (present if k == key else BoolVal(False))
                self.s.push(); self.s.add(cond)
                feas = self.s.check() == sat
                self.s.pop()
                if feas:
                    # fork: take this branch or continue
                    raise Fork([(cond, Enum('Some', [Ref(lambda v=val: v, None)]))], key, m)
            return Enum('None', [])
        if 'with_context' in callee:
            o = A[0]
            return Enum('Ok', o.fields) if o.variant == 'Some' else Enum('Err', ['anyhow'])
        if callee.endswith('as Try>::branch'):
            r = A[0]
            return Enum('Continue', r.fields) if r.variant == 'Ok' else Enum('Break', [Enum('Err', r.fields)])
        if callee.startswith('<&f64 as std::ops::Mul>::mul'):
            return A[0].get() * A[1].get()
        if 'from_residual' in callee:
            return Enum('Err', A[0].fields)
        raise Exception('no model: ' + callee)

class Fork(Exception):
    def __init__(self, alts, key, m): self.alts, self.key, self.m = alts, key, m

def run(fn, args, solver, choices):
    """Execute with a pre-decided list of choices for HashMap::get forks (index of matching entry or -1)."""
    it = Interp(solver)
    frame = {i+1: a for i, a in enumerate(args)}
    bb = 0; ci = 0; pcs = []
    steps = 0
    while True:
        for st in fn.blocks[bb]:
            steps += 1
            if st == 'return': return frame[0], pcs
            m = re.match(r'goto -> bb(\d+)', st)
            if m: bb = int(m.group(1)); break
            m = re.match(r'switchInt\((.*)\) -> \[(.*)\]', st)
            if m:
                v = it.operand(frame, m.group(1))
                tgt = None
                for arm in split_top(m.group(2)):
                    k, t = arm.split(': ')
                    if k == 'otherwise': other = int(t[2:])
                    elif int(k) == v: tgt = int(t[2:])
                bb = tgt if tgt is not None else other; break
            m = re.match(r'drop\(.*\) -> \[return: bb(\d+)', st)
            if m: bb = int(m.group(1)); break
            m = re.match(r'(\S.*?) = (.*)\((.*)\) -> \[return: bb(\d+), unwind', st)
            if m and not m.group(2).endswith(('Add', 'Sub', 'Mul')):
                dst, callee, argstr, nxt = m.groups()
                if callee.startswith('HashMap::<u64, f64>::get'):
                    A = [it.operand(frame, a) for a in split_top(argstr)]
                    mp = A[0].get(); key = A[1].get()
                    c = choices[ci]; ci += 1
                    if c == -1:
                        pcs.append(And([Not(And(p, k == key)) for (k, p, v) in mp]))
                        res = Enum('None', [])
                    else:
                        k, p, v = mp[c]
                        pcs.append(And(p, k == key))
                        res = Enum('Some', [Ref(lambda v=v: v, None)])
                else:
                    res = it.call(frame, callee, split_top(argstr))
                it.place_ref(frame, parse_place(dst)).set(res)
                bb = int(nxt); break
            m = re.match(r'(\S.*?) = (.*)$', st)
            if m:
                v = it.rvalue(frame, m.group(2))
                it.place_ref(frame, parse_place(m.group(1))).set(v)
                continue
            raise Exception('stmt? ' + st)

if __name__ == '__main__':
    import time
    t0 = time.time()
    fn = parse_fn(get_fn('evaluate::<impl at rust/ommx/src/evaluate.rs:61:1: 61:25>::evaluate('))
    NT, NV = 3, 3
    ids = [BitVec(f'id{i}', 64) for i in range(NT)]
    cs = [Real(f'c{i}') for i in range(NT)]
    k0 = Real('k')
    keys = [BitVecVal(i, 64) for i in range(NV)]
    pres = [Bool(f'p{i}') for i in range(NV)]
    xs = [Real(f'x{i}') for i in range(NV)]
    base = Solver()
    for i in ids: base.add(ULT(i, NV + 1))     # id NV is never in the state
    queries = 0; paths = 0
    # enumerate fork choices lazily: product over per-term choice in {-1,0..NV-1}; infeasible ones pruned by solver
    for choices in itertools.product(range(-1, NV), repeat=NT):
        # early exit semantics: after a -1 choice the function returns Err; later choices unused
        if -1 in choices and any(c != -1 for c in choices[choices.index(-1)+1:]): continue
        terms = [Struct([ids[i], cs[i]]) for i in range(NT)]
        lin = Struct([terms, k0])
        state = Struct([[(keys[j], pres[j], xs[j]) for j in range(NV)]])
        res, pcs = run(fn, [Ref(lambda: lin, None), Ref(lambda: state, None)], base, list(choices))
        s = Solver(); s.add(base.assertions()); s.add(pcs)
        queries += 1
        if s.check() != sat: continue
        paths += 1
        # oracle
        def lookup(idv):
            e = RealVal(0)
            for j in range(NV): e = If(idv == keys[j], xs[j], e)
            return e
        allpresent = And([Or([And(ids[i] == keys[j], pres[j]) for j in range(NV)]) for i in range(NT)])
        if res.variant == 'Ok':
            val, used = res.fields[0].fields
            oracle = k0 + sum(cs[i] * lookup(ids[i]) for i in range(NT))
            usedset = used[1]
            post = And(allpresent, val == oracle,
                       And([Or([u == ids[i] for u in usedset]) for i in range(NT)]),
                       And([Or([u == ids[i] for i in range(NT)]) for u in usedset]))
        else:
            post = Not(allpresent)
        s.add(Not(post)); queries += 1
        r = s.check()
        if r != unsat:
            print('VIOLATION', choices, r, s.model() if r == sat else ''); sys.exit(1)
    print(f'paths={paths} queries={queries} time={time.time()-t0:.2f}s all unsat')
