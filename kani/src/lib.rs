//! Engine K: Kani/CBMC harnesses over the compiled crate for the scalar f64 kernels (true IEEE-754 semantics).
#![allow(dead_code)]
#[cfg(kani)]
mod proofs {
        use ommx::Bound;

    const BIG: f64 = 1.0e150; // finite magnitudes bounded so that no finite operation overflows (stated bound)

    fn any_bound_raw() -> (f64, f64, Bound) {
        let l: f64 = kani::any();
        let u: f64 = kani::any();
        let b = Bound::new(l, u);
        kani::assume(b.is_ok());
        (l, u, b.unwrap())
    }

    fn bounded(x: f64) -> bool {
        x.is_infinite() || x.abs() <= BIG
    }

    fn any_bound() -> Bound {
        let (l, u, b) = any_bound_raw();
        kani::assume(bounded(l) && bounded(u));
        b
    }

    fn point_in(b: &Bound) -> f64 {
        let p: f64 = kani::any();
        kani::assume(p.is_finite() && b.lower() <= p && p <= b.upper());
        p
    }

    /// restricted domain for the arithmetic enclosure proofs: 0, +-inf, or +-m*2^e with a 6-bit mantissa field and |e| <= 8
    fn small_f64() -> f64 {
        let kind: u8 = kani::any();
        if kind == 0 {
            return 0.0;
        }
        if kind == 1 {
            return f64::INFINITY;
        }
        if kind == 2 {
            return f64::NEG_INFINITY;
        }
        let neg: bool = kani::any();
        let e: u64 = kani::any();
        kani::assume(e >= 1023 - 8 && e <= 1023 + 8);
        let m: u64 = kani::any();
        kani::assume(m < 64);
        let bits = ((neg as u64) << 63) | (e << 52) | (m << 46);
        f64::from_bits(bits)
    }

    fn small_bound() -> Bound {
        let l = small_f64();
        let u = small_f64();
        let b = Bound::new(l, u);
        kani::assume(b.is_ok());
        b.unwrap()
    }

    fn small_point(b: &Bound) -> f64 {
        let p = small_f64();
        kani::assume(p.is_finite() && b.lower() <= p && p <= b.upper());
        p
    }

    fn valid(b: &Bound) -> bool {
        !b.lower().is_nan() && !b.upper().is_nan() && b.lower() <= b.upper() && b.lower() != f64::INFINITY && b.upper() != f64::NEG_INFINITY
    }

    /// Bound::new accepts exactly: no NaN, lower != +inf, upper != -inf, lower <= upper   (C08: BoundError::check)
    #[kani::proof]
    fn bound_new_accepts_exactly_valid() {
        let l: f64 = kani::any();
        let u: f64 = kani::any();
        let ok = !l.is_nan() && !u.is_nan() && l != f64::INFINITY && u != f64::NEG_INFINITY && l <= u;
        match Bound::new(l, u) {
            Ok(b) => {
                assert!(ok);
                assert!(b.lower() == l && b.upper() == u);
            }
            Err(_) => assert!(!ok),
        }
        kani::cover!(ok);
        kani::cover!(!ok);
    }

    #[kani::proof]
    fn add_encloses() {
        let a = small_bound();
        let b = small_bound();
        let p = small_point(&a);
        let q = small_point(&b);
        let c = a + b;
        assert!(valid(&c));
        assert!(c.lower() <= p + q && p + q <= c.upper());
        kani::cover!(a.lower() == f64::NEG_INFINITY && b.upper() == f64::INFINITY);
    }

    #[kani::proof]
    fn add_scalar_encloses() {
        let a = small_bound();
        let p = small_point(&a);
        let s = small_f64();
        kani::assume(s.is_finite());
        let c = a + s;
        assert!(valid(&c));
        assert!(c.lower() <= p + s && p + s <= c.upper());
        let d = s + a;
        assert!(d.lower() == c.lower() && d.upper() == c.upper());
    }

    #[kani::proof]
    fn scale_encloses() {
        let a = small_bound();
        let p = small_point(&a);
        let s = small_f64();
        kani::assume(s.is_finite() && s != 0.0);
        let c = a * s;
        assert!(valid(&c));
        assert!(c.lower() <= p * s && p * s <= c.upper());
        kani::cover!(s < 0.0 && a.lower() == f64::NEG_INFINITY);
    }

    #[kani::proof]
    fn integer_bound_keeps_integers() {
        let a = any_bound();
        let k: f64 = kani::any();
        kani::assume(k.is_finite() && k == k.floor() && a.lower() <= k && k <= a.upper());
        // precondition of the property: the interval contains an integer (k)
        let c = a.as_integer_bound();
        assert!(valid(&c));
        assert!(c.lower() <= k && k <= c.upper());
    }

    #[kani::proof]
    fn contains_matches_rule() {
        let (l, u, a) = any_bound_raw();
        let v: f64 = kani::any();
        let atol: f64 = kani::any();
        kani::assume(atol >= 0.0 && atol <= 1.0);
        kani::assume(!v.is_nan());
        let want = l - atol <= v && v <= u + atol;
        assert!(a.contains(v, atol) == want);
        kani::cover!(want);
        kani::cover!(!want);
    }

    #[kani::proof]
    fn nearest_to_zero_in_bound_and_minimal() {
        let (l, u, a) = any_bound_raw();
        let z = a.nearest_to_zero();
        assert!(l <= z && z <= u);
        let p = point_in(&a);
        assert!(z.abs() <= p.abs());
    }

    #[kani::proof]
    fn intersection_is_meet() {
        let (_, _, a) = any_bound_raw();
        let (_, _, b) = any_bound_raw();
        let p: f64 = kani::any();
        kani::assume(!p.is_nan());
        let in_both = a.lower() <= p && p <= a.upper() && b.lower() <= p && p <= b.upper();
        match a.intersection(&b) {
            Some(c) => {
                assert!(valid(&c));
                assert!((c.lower() <= p && p <= c.upper()) == in_both);
            }
            None => assert!(!in_both),
        }
    }

    #[kani::proof]
    fn partial_ord_scalar() {
        let (l, u, a) = any_bound_raw();
        let v: f64 = kani::any();
        kani::assume(!v.is_nan());
        match a.partial_cmp(&v) {
            Some(std::cmp::Ordering::Greater) => assert!(v <= l),
            Some(std::cmp::Ordering::Less) => assert!(v >= u),
            Some(std::cmp::Ordering::Equal) => assert!(false),
            None => assert!(l < v && v < u),
        }
    }

    /// known finding probe (expected to FAIL): finite endpoints near f64::MAX make `Bound + Bound` panic
    #[kani::proof]
    fn add_full_range_no_panic() {
        let (_, _, a) = any_bound_raw();
        let (_, _, b) = any_bound_raw();
        let c = a + b;
        assert!(valid(&c));
    }

    /// known finding probe (expected to FAIL): `Bound * f64` with a finite non-zero factor can overflow to an invalid interval
    #[kani::proof]
    fn scale_full_range_no_panic() {
        let (_, _, a) = any_bound_raw();
        let s: f64 = kani::any();
        kani::assume(s.is_finite() && s != 0.0);
        let c = a * s;
        assert!(valid(&c));
    }
}
