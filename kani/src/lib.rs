//! Engine K: Kani/CBMC harnesses over the compiled crate for the scalar f64 kernels (true IEEE-754 semantics).
#![allow(dead_code)]
#[cfg(kani)]
mod proofs {
    use ommx::v1::{Equality, EvaluatedConstraint};
    use ommx::Bound;

    const BIG: f64 = 1.0e150; // finite magnitudes bounded so that no finite operation overflows (stated bound)

    fn any_bound_raw() -> (f64, f64, Bound) {
        let l: f64 = kani::any();
        let u: f64 = kani::any();
        let b = Bound::new(l, u);
        kani::assume(b.is_ok());
        (l, u, b.unwrap())
    }

    fn bounded(x: f64) -> bool {
        x.is_infinite() || x.abs() <= BIG
    }

    fn any_bound() -> Bound {
        let (l, u, b) = any_bound_raw();
        kani::assume(bounded(l) && bounded(u));
        b
    }

    fn point_in(b: &Bound) -> f64 {
        let p: f64 = kani::any();
        kani::assume(p.is_finite() && b.lower() <= p && p <= b.upper());
        p
    }

    fn valid(b: &Bound) -> bool {
        !b.lower().is_nan() && !b.upper().is_nan() && b.lower() <= b.upper() && b.lower() != f64::INFINITY && b.upper() != f64::NEG_INFINITY
    }

    /// Bound::new accepts exactly: no NaN, lower != +inf, upper != -inf, lower <= upper   (C08: BoundError::check)
    #[kani::proof]
    fn bound_new_accepts_exactly_valid() {
        let l: f64 = kani::any();
        let u: f64 = kani::any();
        let ok = !l.is_nan() && !u.is_nan() && l != f64::INFINITY && u != f64::NEG_INFINITY && l <= u;
        match Bound::new(l, u) {
            Ok(b) => {
                assert!(ok);
                assert!(b.lower() == l && b.upper() == u);
            }
            Err(_) => assert!(!ok),
        }
        kani::cover!(ok);
        kani::cover!(!ok);
    }

    #[kani::proof]
    fn add_encloses() {
        let a = any_bound();
        let b = any_bound();
        let p = point_in(&a);
        let q = point_in(&b);
        let c = a + b;
        assert!(valid(&c));
        assert!(c.lower() <= p + q && p + q <= c.upper());
        kani::cover!(a.lower() == f64::NEG_INFINITY && b.upper() == f64::INFINITY);
    }

    #[kani::proof]
    fn add_scalar_encloses() {
        let a = any_bound();
        let p = point_in(&a);
        let s: f64 = kani::any();
        kani::assume(s.is_finite() && s.abs() <= BIG);
        let c = a + s;
        assert!(valid(&c));
        assert!(c.lower() <= p + s && p + s <= c.upper());
        let d = s + a;
        assert!(d.lower() == c.lower() && d.upper() == c.upper());
    }

    #[kani::proof]
    fn scale_encloses() {
        let a = any_bound();
        let p = point_in(&a);
        let s: f64 = kani::any();
        kani::assume(s.is_finite() && s != 0.0 && s.abs() <= BIG && s.abs() >= 1.0e-150);
        let c = a * s;
        assert!(valid(&c));
        assert!(c.lower() <= p * s && p * s <= c.upper());
        kani::cover!(s < 0.0 && a.lower() == f64::NEG_INFINITY);
    }

    #[kani::proof]
    fn integer_bound_keeps_integers() {
        let a = any_bound();
        let k: f64 = kani::any();
        kani::assume(k.is_finite() && k == k.floor() && a.lower() <= k && k <= a.upper());
        // precondition of the property: the interval contains an integer (k)
        let c = a.as_integer_bound();
        assert!(valid(&c));
        assert!(c.lower() <= k && k <= c.upper());
    }

    #[kani::proof]
    fn contains_matches_rule() {
        let (l, u, a) = any_bound_raw();
        let v: f64 = kani::any();
        let atol: f64 = kani::any();
        kani::assume(atol >= 0.0 && atol <= 1.0);
        kani::assume(!v.is_nan());
        let want = l - atol <= v && v <= u + atol;
        assert!(a.contains(v, atol) == want);
        kani::cover!(want);
        kani::cover!(!want);
    }

    #[kani::proof]
    fn nearest_to_zero_in_bound_and_minimal() {
        let (l, u, a) = any_bound_raw();
        let z = a.nearest_to_zero();
        assert!(l <= z && z <= u);
        let p = point_in(&a);
        assert!(z.abs() <= p.abs());
    }

    #[kani::proof]
    fn intersection_is_meet() {
        let (_, _, a) = any_bound_raw();
        let (_, _, b) = any_bound_raw();
        let p: f64 = kani::any();
        kani::assume(!p.is_nan());
        let in_both = a.lower() <= p && p <= a.upper() && b.lower() <= p && p <= b.upper();
        match a.intersection(&b) {
            Some(c) => {
                assert!(valid(&c));
                assert!((c.lower() <= p && p <= c.upper()) == in_both);
            }
            None => assert!(!in_both),
        }
    }

    #[kani::proof]
    fn partial_ord_scalar() {
        let (l, u, a) = any_bound_raw();
        let v: f64 = kani::any();
        kani::assume(!v.is_nan());
        match a.partial_cmp(&v) {
            Some(std::cmp::Ordering::Greater) => assert!(v <= l),
            Some(std::cmp::Ordering::Less) => assert!(v >= u),
            Some(std::cmp::Ordering::Equal) => assert!(false),
            None => assert!(l < v && v < u),
        }
    }

    /// C05: the feasibility rule |f| < atol for equalities, f < atol for inequalities
    #[kani::proof]
    fn is_feasible_rule() {
        let v: f64 = kani::any();
        let eq: bool = kani::any();
        let mut c = EvaluatedConstraint::default();
        c.evaluated_value = v;
        c.equality = if eq { Equality::EqualToZero as i32 } else { Equality::LessThanOrEqualToZero as i32 };
        let r = c.is_feasible(1e-6);
        match r {
            Ok(b) => {
                let want = if eq { v.abs() < 1e-6 } else { v < 1e-6 };
                assert!(b == want);
            }
            Err(_) => assert!(false),
        }
    }

    /// known finding probe (expected to FAIL): finite endpoints near f64::MAX make `Bound + Bound` panic
    #[kani::proof]
    fn add_full_range_no_panic() {
        let (_, _, a) = any_bound_raw();
        let (_, _, b) = any_bound_raw();
        let c = a + b;
        assert!(valid(&c));
    }

    /// known finding probe (expected to FAIL): `Bound * f64` with a finite non-zero factor can overflow to an invalid interval
    #[kani::proof]
    fn scale_full_range_no_panic() {
        let (_, _, a) = any_bound_raw();
        let s: f64 = kani::any();
        kani::assume(s.is_finite() && s != 0.0);
        let c = a * s;
        assert!(valid(&c));
    }
}
