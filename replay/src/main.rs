//! Native replay / translator-validation driver: executes concrete cases against the real crate.
//! One JSON case per input line, one JSON result per output line. Public API of `ommx` only.
#[allow(unused_imports)]
use ommx::v1;
use ommx::Evaluate;
use serde_json::{json, Map, Value};
use std::collections::HashMap;
use std::io::{BufRead, Write};

mod conv;
mod ops;
mod ops2;
use conv::*;

fn main() {
    std::panic::set_hook(Box::new(|_| {}));
    let stdin = std::io::stdin();
    let stdout = std::io::stdout();
    let mut out = stdout.lock();
    for line in stdin.lock().lines() {
        let line = line.unwrap();
        if line.trim().is_empty() {
            continue;
        }
        let case: Value = match serde_json::from_str(&line) {
            Ok(v) => v,
            Err(e) => {
                writeln!(out, "{}", json!({"bad_case": e.to_string()})).unwrap();
                continue;
            }
        };
        let res = std::panic::catch_unwind(|| ops::run(&case));
        let v = match res {
            Ok(Ok(v)) => v,
            Ok(Err(e)) => json!({"bad_case": format!("{e:#}")}),
            Err(p) => {
                let msg = if let Some(s) = p.downcast_ref::<String>() {
                    s.clone()
                } else if let Some(s) = p.downcast_ref::<&str>() {
                    s.to_string()
                } else {
                    "panic".to_string()
                };
                json!({"panic": msg})
            }
        };
        writeln!(out, "{}", v).unwrap();
        out.flush().unwrap();
    }
}

#[allow(dead_code)]
fn unused(_: &v1::State, _: &HashMap<u64, f64>, _: Map<String, Value>) {
    let _ = <v1::Function as Evaluate>::evaluate;
}
