use crate::conv::*;
use anyhow::{anyhow, bail, Result};
use ommx::v1::{self, Function, Linear, Polynomial, Quadratic};
use ommx::Evaluate;
use serde_json::{json, Value};
use std::collections::HashMap;

fn errv(e: anyhow::Error) -> Value {
    json!({"err": format!("{e:#}")})
}

enum Opnd {
    F64(f64),
    Lin(Linear),
    Quad(Quadratic),
    Poly(Polynomial),
    Func(Function),
    Dv(v1::DecisionVariable),
    Par(v1::Parameter),
}

fn opnd(v: &Value) -> Result<Opnd> {
    let t = v["t"].as_str().ok_or_else(|| anyhow!("operand without t"))?;
    Ok(match t {
        "f64" => Opnd::F64(jf(&v["v"])?),
        "lin" => Opnd::Lin(msg(&v["v"])?),
        "quad" => Opnd::Quad(msg(&v["v"])?),
        "poly" => Opnd::Poly(msg(&v["v"])?),
        "func" => Opnd::Func(msg(&v["v"])?),
        "dv" => {
            let mut d = v1::DecisionVariable::default();
            d.id = ju(&v["v"])?;
            Opnd::Dv(d)
        }
        "par" => {
            let mut d = v1::Parameter::default();
            d.id = ju(&v["v"])?;
            Opnd::Par(d)
        }
        _ => bail!("operand kind {t}"),
    })
}

fn tyname<T>(_: &T) -> &'static str {
    std::any::type_name::<T>()
}

fn outf<T: Into<Function>>(x: T) -> Value {
    let ty = tyname(&x);
    let f: Function = x.into();
    json!({"ok": {"ty": ty, "f": enc(&f)}})
}

macro_rules! binop {
    ($a:expr, $b:expr, $op:tt) => {
        match ($a, $b) {
            (Opnd::F64(a), Opnd::F64(b)) => outf(a $op b),
            (Opnd::F64(a), Opnd::Lin(b)) => outf(a $op b),
            (Opnd::F64(a), Opnd::Quad(b)) => outf(a $op b),
            (Opnd::F64(a), Opnd::Poly(b)) => outf(a $op b),
            (Opnd::F64(a), Opnd::Func(b)) => outf(a $op b),
            (Opnd::F64(a), Opnd::Dv(b)) => outf(a $op &b),
            (Opnd::F64(a), Opnd::Par(b)) => outf(a $op &b),
            (Opnd::Lin(a), Opnd::F64(b)) => outf(a $op b),
            (Opnd::Lin(a), Opnd::Lin(b)) => outf(a $op b),
            (Opnd::Lin(a), Opnd::Quad(b)) => outf(a $op b),
            (Opnd::Lin(a), Opnd::Poly(b)) => outf(a $op b),
            (Opnd::Lin(a), Opnd::Func(b)) => outf(a $op b),
            (Opnd::Lin(a), Opnd::Dv(b)) => outf(a $op &b),
            (Opnd::Lin(a), Opnd::Par(b)) => outf(a $op &b),
            (Opnd::Quad(a), Opnd::F64(b)) => outf(a $op b),
            (Opnd::Quad(a), Opnd::Lin(b)) => outf(a $op b),
            (Opnd::Quad(a), Opnd::Quad(b)) => outf(a $op b),
            (Opnd::Quad(a), Opnd::Poly(b)) => outf(a $op b),
            (Opnd::Quad(a), Opnd::Func(b)) => outf(a $op b),
            (Opnd::Quad(a), Opnd::Dv(b)) => outf(a $op &b),
            (Opnd::Quad(a), Opnd::Par(b)) => outf(a $op &b),
            (Opnd::Poly(a), Opnd::F64(b)) => outf(a $op b),
            (Opnd::Poly(a), Opnd::Lin(b)) => outf(a $op b),
            (Opnd::Poly(a), Opnd::Quad(b)) => outf(a $op b),
            (Opnd::Poly(a), Opnd::Poly(b)) => outf(a $op b),
            (Opnd::Poly(a), Opnd::Func(b)) => outf(a $op b),
            (Opnd::Poly(a), Opnd::Dv(b)) => outf(a $op &b),
            (Opnd::Poly(a), Opnd::Par(b)) => outf(a $op &b),
            (Opnd::Func(a), Opnd::F64(b)) => outf(a $op b),
            (Opnd::Func(a), Opnd::Lin(b)) => outf(a $op b),
            (Opnd::Func(a), Opnd::Quad(b)) => outf(a $op b),
            (Opnd::Func(a), Opnd::Poly(b)) => outf(a $op b),
            (Opnd::Func(a), Opnd::Func(b)) => outf(a $op b),
            (Opnd::Func(a), Opnd::Dv(b)) => outf(a $op &b),
            (Opnd::Func(a), Opnd::Par(b)) => outf(a $op &b),
            (Opnd::Dv(a), Opnd::F64(b)) => outf(&a $op b),
            (Opnd::Dv(a), Opnd::Lin(b)) => outf(&a $op b),
            (Opnd::Dv(a), Opnd::Quad(b)) => outf(&a $op b),
            (Opnd::Dv(a), Opnd::Poly(b)) => outf(&a $op b),
            (Opnd::Dv(a), Opnd::Func(b)) => outf(&a $op b),
            (Opnd::Dv(a), Opnd::Dv(b)) => outf(&a $op &b),
            (Opnd::Dv(a), Opnd::Par(b)) => outf(&a $op &b),
            (Opnd::Par(a), Opnd::F64(b)) => outf(&a $op b),
            (Opnd::Par(a), Opnd::Lin(b)) => outf(&a $op b),
            (Opnd::Par(a), Opnd::Quad(b)) => outf(&a $op b),
            (Opnd::Par(a), Opnd::Poly(b)) => outf(&a $op b),
            (Opnd::Par(a), Opnd::Func(b)) => outf(&a $op b),
            (Opnd::Par(a), Opnd::Dv(b)) => outf(&a $op &b),
            (Opnd::Par(a), Opnd::Par(b)) => outf(&a $op &b),
        }
    };
}

fn sub(a: Opnd, b: Opnd) -> Result<Value> {
    // Sub is only defined for a subset of the pairs
    Ok(match (a, b) {
        (Opnd::F64(a), Opnd::F64(b)) => outf(a - b),
        (Opnd::Lin(a), Opnd::F64(b)) => outf(a - b),
        (Opnd::Lin(a), Opnd::Lin(b)) => outf(a - b),
        (Opnd::Quad(a), Opnd::F64(b)) => outf(a - b),
        (Opnd::Quad(a), Opnd::Lin(b)) => outf(a - b),
        (Opnd::Quad(a), Opnd::Quad(b)) => outf(a - b),
        (Opnd::Poly(a), Opnd::Poly(b)) => outf(a - b),
        (Opnd::Func(a), Opnd::F64(b)) => outf(a - b),
        (Opnd::Func(a), Opnd::Lin(b)) => outf(a - b),
        (Opnd::Func(a), Opnd::Quad(b)) => outf(a - b),
        (Opnd::Func(a), Opnd::Poly(b)) => outf(a - b),
        (Opnd::Func(a), Opnd::Func(b)) => outf(a - b),
        _ => json!({"undefined": true}),
    })
}

fn neg(a: Opnd) -> Value {
    match a {
        Opnd::F64(a) => outf(-a),
        Opnd::Lin(a) => outf(-a),
        Opnd::Quad(a) => outf(-a),
        Opnd::Poly(a) => outf(-a),
        Opnd::Func(a) => outf(-a),
        Opnd::Dv(a) => outf(-&a),
        Opnd::Par(a) => outf(-&a),
    }
}

fn terms(f: &Function) -> Value {
    let mut out = vec![];
    for (ids_, c) in f.into_iter() {
        let v: Vec<u64> = ids_.iter().cloned().collect();
        out.push(json!([v, fj(c)]));
    }
    Value::Array(out)
}

pub fn run(case: &Value) -> Result<Value> {
    let op = case["op"].as_str().ok_or_else(|| anyhow!("case without op"))?;
    Ok(match op {
        "evaluate_function" => {
            let f: Function = msg(&case["f"])?;
            let st: v1::State = msg(&case["state"])?;
            match f.evaluate(&st) {
                Ok((v, used)) => json!({"ok": {"value": fj(v), "used": ids(used)}}),
                Err(e) => errv(e),
            }
        }
        "evaluate_linear" => {
            let f: Linear = msg(&case["f"])?;
            let st: v1::State = msg(&case["state"])?;
            match f.evaluate(&st) {
                Ok((v, used)) => json!({"ok": {"value": fj(v), "used": ids(used)}}),
                Err(e) => errv(e),
            }
        }
        "evaluate_quadratic" => {
            let f: Quadratic = msg(&case["f"])?;
            let st: v1::State = msg(&case["state"])?;
            match f.evaluate(&st) {
                Ok((v, used)) => json!({"ok": {"value": fj(v), "used": ids(used)}}),
                Err(e) => errv(e),
            }
        }
        "evaluate_polynomial" => {
            let f: Polynomial = msg(&case["f"])?;
            let st: v1::State = msg(&case["state"])?;
            match f.evaluate(&st) {
                Ok((v, used)) => json!({"ok": {"value": fj(v), "used": ids(used)}}),
                Err(e) => errv(e),
            }
        }
        "partial_evaluate_function" => {
            let mut f: Function = msg(&case["f"])?;
            let st: v1::State = msg(&case["state"])?;
            match f.partial_evaluate(&st) {
                Ok(used) => json!({"ok": {"f": enc(&f), "used": ids(used)}}),
                Err(e) => errv(e),
            }
        }
        "arith" => {
            let kind = case["kind"].as_str().unwrap_or("");
            let a = opnd(&case["a"])?;
            match kind {
                "neg" => neg(a),
                "add" => binop!(a, opnd(&case["b"])?, +),
                "mul" => binop!(a, opnd(&case["b"])?, *),
                "sub" => sub(a, opnd(&case["b"])?)?,
                // the iterator folds `impl Sum for Linear`, `impl Sum for Function`, `impl Product for Function`
                "sum" => match (a, opnd(&case["b"])?) {
                    (Opnd::Lin(a), Opnd::Lin(b)) => outf(vec![a, b].into_iter().sum::<Linear>()),
                    (Opnd::Func(a), Opnd::Func(b)) => outf(vec![a, b].into_iter().sum::<Function>()),
                    _ => json!({"undefined": true}),
                },
                "product" => match (a, opnd(&case["b"])?) {
                    (Opnd::Func(a), Opnd::Func(b)) => outf(vec![a, b].into_iter().product::<Function>()),
                    _ => json!({"undefined": true}),
                },
                _ => bail!("arith kind {kind}"),
            }
        }
        "terms" => {
            let f: Function = msg(&case["f"])?;
            json!({"ok": {"terms": terms(&f)}})
        }
        "substitute_function" => {
            // The result may depend on the iteration order of the replacement map, so with "tries" the map is rebuilt
            // (fresh RandomState) that many times and every distinct outcome is reported under "variants".
            let f: Function = msg(&case["f"])?;
            let tries = case["tries"].as_u64().unwrap_or(1);
            let mut variants: Vec<Value> = vec![];
            for _ in 0..tries {
                let mut rep: HashMap<u64, Function> = HashMap::new();
                for (k, v) in case["replacements"].as_object().ok_or_else(|| anyhow!("replacements"))? {
                    rep.insert(k.parse()?, msg(v)?);
                }
                let r = match f.substitute(&rep) {
                    Ok(g) => json!({"ok": {"f": enc(&g)}}),
                    Err(e) => errv(e),
                };
                if !variants.contains(&r) {
                    variants.push(r);
                }
            }
            if tries > 1 {
                json!({"variants": variants})
            } else {
                variants.remove(0)
            }
        }
        "evaluate_instance" => {
            let inst: v1::Instance = msg(&case["instance"])?;
            let st: v1::State = msg(&case["state"])?;
            match inst.evaluate(&st) {
                Ok((sol, used)) => json!({"ok": {"solution": enc(&sol), "used": ids(used)}}),
                Err(e) => errv(e),
            }
        }
        "partial_evaluate_instance" => {
            let mut inst: v1::Instance = msg(&case["instance"])?;
            let st: v1::State = msg(&case["state"])?;
            match inst.partial_evaluate(&st) {
                Ok(used) => json!({"ok": {"instance": enc(&inst), "used": ids(used)}}),
                Err(e) => errv(e),
            }
        }
        "evaluate_samples" => {
            let inst: v1::Instance = msg(&case["instance"])?;
            let samples: v1::Samples = msg(&case["samples"])?;
            match inst.evaluate_samples(&samples) {
                Ok((ss, used)) => {
                    let mut gets = serde_json::Map::new();
                    if let Some(idsv) = case["get"].as_array() {
                        for i in idsv {
                            let i = ju(i)?;
                            let r = match ss.get(i) {
                                Ok(sol) => json!({"ok": enc(&sol)}),
                                Err(e) => errv(e),
                            };
                            gets.insert(i.to_string(), r);
                        }
                    }
                    let ns = match ss.num_samples() {
                        Ok(n) => json!({"ok": n}),
                        Err(e) => errv(e),
                    };
                    json!({"ok": {"sample_set": enc(&ss), "used": ids(used), "get": gets,
                                  "sample_ids": ids(ss.sample_ids()), "num_samples": ns}})
                }
                Err(e) => errv(e),
            }
        }
        _ => crate::ops2::run(op, case)?,
    })
}
