//! further ops (instance transformations, parsers) — extended as properties are added
use anyhow::{bail, Result};
use serde_json::Value;

pub fn run(op: &str, _case: &Value) -> Result<Value> {
    bail!("unknown op {op}")
}
