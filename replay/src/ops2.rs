//! further ops (instance transformations, parsers) — extended as properties are added
use crate::conv::*;
use anyhow::{anyhow, bail, Result};
use ommx::v1::{self, Function};
use ommx::Evaluate;
use serde_json::{json, Value};

fn errv(e: anyhow::Error) -> Value {
    json!({"err": format!("{e:#}")})
}

pub fn run(op: &str, case: &Value) -> Result<Value> {
    Ok(match op {
        "pe_then_eval" => {
            let mut f: Function = msg(&case["f"])?;
            let s1: v1::State = msg(&case["s1"])?;
            let s2: v1::State = msg(&case["s2"])?;
            match f.partial_evaluate(&s1) {
                Ok(used) => {
                    let mut out = json!({"f": enc(&f), "used": ids(used)});
                    if let Ok((v, u2)) = f.evaluate(&s2) {
                        out["value"] = fj(v);
                        out["used2"] = ids(u2);
                    }
                    json!({"ok": out})
                }
                Err(e) => errv(e),
            }
        }
        "pe_then_eval_instance" => {
            let mut inst: v1::Instance = msg(&case["instance"])?;
            let s1: v1::State = msg(&case["s1"])?;
            let s2: v1::State = msg(&case["s2"])?;
            match inst.partial_evaluate(&s1) {
                Ok(used) => {
                    let mut out = json!({"instance": enc(&inst), "used": ids(used)});
                    match inst.evaluate(&s2) {
                        Ok((sol, u2)) => {
                            out["solution"] = enc(&sol);
                            out["used2"] = ids(u2);
                        }
                        Err(e) => {
                            out["eval_err"] = json!(format!("{e:#}"));
                        }
                    }
                    json!({"ok": out})
                }
                Err(e) => errv(e),
            }
        }
        "eval_dependencies_via_instance" => {
            // eval_dependencies is private: reach it through Instance::evaluate with an empty objective.
            // The outcome may depend on the HashMap iteration order, so the map is rebuilt (fresh RandomState) many
            // times and every distinct outcome is reported.
            let st: v1::State = msg(&case["state"])?;
            let mut variants: Vec<Value> = vec![];
            let tries = case["tries"].as_u64().unwrap_or(300);
            for _ in 0..tries {
                let mut inst = v1::Instance::default();
                inst.sense = 1;
                for (k, v) in case["deps"].as_object().ok_or_else(|| anyhow!("deps"))? {
                    inst.decision_variable_dependency.insert(k.parse()?, msg(v)?);
                }
                let r = match inst.evaluate(&st) {
                    Ok((sol, _)) => {
                        let mut ents: Vec<(u64, f64)> = sol.state.unwrap_or_default().entries.into_iter().collect();
                        ents.sort_by(|a, b| a.0.cmp(&b.0));
                        json!({"ok": ents.iter().map(|(k, v)| json!([k, fj(*v)])).collect::<Vec<_>>()})
                    }
                    Err(_) => json!({"err": true}),
                };
                if !variants.contains(&r) {
                    variants.push(r);
                }
            }
            json!({"variants": variants})
        }
        "substitute_then_eval" => {
            let mut inst: v1::Instance = msg(&case["instance"])?;
            for step in case["steps"].as_array().ok_or_else(|| anyhow!("steps"))? {
                let mut rep = std::collections::HashMap::new();
                for (k, v) in step.as_object().ok_or_else(|| anyhow!("step"))? {
                    rep.insert(k.parse::<u64>()?, msg::<Function>(v)?);
                }
                if let Err(e) = inst.substitute(rep) {
                    return Ok(errv(e));
                }
            }
            let st: v1::State = msg(&case["state"])?;
            match inst.evaluate(&st) {
                Ok((sol, used)) => json!({"ok": {"solution": enc(&sol), "used": ids(used), "instance": enc(&inst)}}),
                Err(e) => errv(e),
            }
        }
        "relax_restore" => {
            let mut inst: v1::Instance = msg(&case["instance"])?;
            let mut results = vec![];
            for o in case["ops"].as_array().ok_or_else(|| anyhow!("ops"))? {
                let kind = o[0].as_str().unwrap_or("");
                let id = ju(&o[1])?;
                let reason = o[2].as_str().unwrap_or("").to_string();
                let r = if kind == "relax" {
                    let mut p = std::collections::HashMap::new();
                    p.insert("step".to_string(), reason.clone());
                    inst.relax_constraint(id, reason, p)
                } else {
                    inst.restore_constraint(id)
                };
                results.push(r.is_ok());
            }
            let mut out = json!({"results": results, "instance": enc(&inst)});
            if let Some(s) = case["state"].as_str() {
                if !s.is_empty() {
                    let st: v1::State = msg(&case["state"])?;
                    if let Ok((sol, _)) = inst.evaluate(&st) {
                        out["solution"] = enc(&sol);
                    }
                }
            }
            json!({"ok": out})
        }
        "penalty_method" | "uniform_penalty_method" => {
            let inst: v1::Instance = msg(&case["instance"])?;
            let r = if op == "penalty_method" { inst.penalty_method() } else { inst.uniform_penalty_method() };
            match r {
                Ok(p) => json!({"ok": {"parametric": enc(&p)}}),
                Err(e) => errv(e),
            }
        }
        _ => bail!("unknown op {op}"),
    })
}

#[allow(dead_code)]
fn unused() -> anyhow::Error {
    anyhow!("x")
}
