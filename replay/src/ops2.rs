//! further ops (instance transformations, parsers) — extended as properties are added
use crate::conv::*;
use anyhow::{anyhow, bail, Result};
use ommx::v1::{self, Function};
use ommx::Evaluate;
use serde_json::{json, Value};

fn errv(e: anyhow::Error) -> Value {
    json!({"err": format!("{e:#}")})
}

pub fn run(op: &str, case: &Value) -> Result<Value> {
    Ok(match op {
        "pe_then_eval" => {
            let mut f: Function = msg(&case["f"])?;
            let s1: v1::State = msg(&case["s1"])?;
            let s2: v1::State = msg(&case["s2"])?;
            match f.partial_evaluate(&s1) {
                Ok(used) => {
                    let mut out = json!({"f": enc(&f), "used": ids(used)});
                    if let Ok((v, u2)) = f.evaluate(&s2) {
                        out["value"] = fj(v);
                        out["used2"] = ids(u2);
                    }
                    json!({"ok": out})
                }
                Err(e) => errv(e),
            }
        }
        "pe_then_eval_instance" => {
            let mut inst: v1::Instance = msg(&case["instance"])?;
            let s1: v1::State = msg(&case["s1"])?;
            let s2: v1::State = msg(&case["s2"])?;
            let mut r1 = inst.partial_evaluate(&s1);
            if let (Ok(u1), Some(_)) = (&mut r1, case["s1b"].as_str()) {
                let s1b: v1::State = msg(&case["s1b"])?;
                match inst.partial_evaluate(&s1b) {
                    Ok(mut u2) => u1.append(&mut u2),
                    Err(e) => return Ok(errv(e)),
                }
            }
            match r1 {
                Ok(used) => {
                    let mut out = json!({"instance": enc(&inst), "used": ids(used)});
                    match inst.evaluate(&s2) {
                        Ok((sol, u2)) => {
                            out["solution"] = enc(&sol);
                            out["used2"] = ids(u2);
                        }
                        Err(e) => {
                            out["eval_err"] = json!(format!("{e:#}"));
                        }
                    }
                    json!({"ok": out})
                }
                Err(e) => errv(e),
            }
        }
        "eval_dependencies_via_instance" => {
            // eval_dependencies is private: reach it through Instance::evaluate with an empty objective.
            // The outcome may depend on the HashMap iteration order, so the map is rebuilt (fresh RandomState) many
            // times and every distinct outcome is reported.
            let st: v1::State = msg(&case["state"])?;
            let mut variants: Vec<Value> = vec![];
            let tries = case["tries"].as_u64().unwrap_or(300);
            for _ in 0..tries {
                let mut inst = v1::Instance::default();
                inst.sense = 1;
                for (k, v) in case["deps"].as_object().ok_or_else(|| anyhow!("deps"))? {
                    inst.decision_variable_dependency.insert(k.parse()?, msg(v)?);
                }
                let r = match inst.evaluate(&st) {
                    Ok((sol, _)) => {
                        let mut ents: Vec<(u64, f64)> = sol.state.unwrap_or_default().entries.into_iter().collect();
                        ents.sort_by(|a, b| a.0.cmp(&b.0));
                        json!({"ok": ents.iter().map(|(k, v)| json!([k, fj(*v)])).collect::<Vec<_>>()})
                    }
                    Err(_) => json!({"err": true}),
                };
                if !variants.contains(&r) {
                    variants.push(r);
                }
            }
            json!({"variants": variants})
        }
        "evaluate_instance_orders" => {
            // Instance::evaluate repeated with freshly decoded messages (fresh HashMap RandomState each time):
            // every distinct outcome over the iteration orders met is reported
            let st: v1::State = msg(&case["state"])?;
            let mut variants: Vec<Value> = vec![];
            for _ in 0..case["tries"].as_u64().unwrap_or(300) {
                let inst: v1::Instance = msg(&case["instance"])?;
                let r = match inst.evaluate(&st) {
                    Ok((sol, _)) => {
                        let mut ents: Vec<(u64, f64)> = sol.state.unwrap_or_default().entries.into_iter().collect();
                        ents.sort_by(|a, b| a.0.cmp(&b.0));
                        json!({"ok": ents.iter().map(|(k, v)| json!([k, fj(*v)])).collect::<Vec<_>>()})
                    }
                    Err(_) => json!({"err": true}),
                };
                if !variants.contains(&r) {
                    variants.push(r);
                }
            }
            json!({"variants": variants})
        }
        "evaluate_instance_variants" => {
            // like evaluate_instance, repeated with freshly decoded messages (fresh HashMap RandomState each time):
            // every distinct outcome over the iteration orders met is reported in full
            let st: v1::State = msg(&case["state"])?;
            let mut variants: Vec<Value> = vec![];
            let mut seen: Vec<String> = vec![];
            for _ in 0..case["tries"].as_u64().unwrap_or(200) {
                let inst: v1::Instance = msg(&case["instance"])?;
                let (key, r) = match inst.evaluate(&st) {
                    Ok((sol, used)) => {
                        let mut ents: Vec<(u64, u64)> = sol.state.clone().unwrap_or_default().entries.into_iter().map(|(k, v)| (k, v.to_bits())).collect();
                        ents.sort();
                        (format!("{ents:?} {:?} {:?}", sol.objective.to_bits(), sol.feasible), json!({"ok": {"solution": enc(&sol), "used": ids(used)}}))
                    }
                    Err(e) => ("err".to_string(), errv(e)),
                };
                if !seen.contains(&key) {
                    seen.push(key);
                    variants.push(r);
                }
            }
            json!({"variants": variants})
        }
        "substitute_then_eval" => {
            let mut inst: v1::Instance = msg(&case["instance"])?;
            for step in case["steps"].as_array().ok_or_else(|| anyhow!("steps"))? {
                let mut rep = std::collections::HashMap::new();
                for (k, v) in step.as_object().ok_or_else(|| anyhow!("step"))? {
                    rep.insert(k.parse::<u64>()?, msg::<Function>(v)?);
                }
                if let Err(e) = inst.substitute(rep) {
                    return Ok(errv(e));
                }
            }
            let st: v1::State = msg(&case["state"])?;
            match inst.evaluate(&st) {
                Ok((sol, used)) => json!({"ok": {"solution": enc(&sol), "used": ids(used), "instance": enc(&inst)}}),
                Err(e) => errv(e),
            }
        }
        "relax_restore" => {
            let mut inst: v1::Instance = msg(&case["instance"])?;
            let mut results = vec![];
            for o in case["ops"].as_array().ok_or_else(|| anyhow!("ops"))? {
                let kind = o[0].as_str().unwrap_or("");
                let id = ju(&o[1])?;
                let reason = o[2].as_str().unwrap_or("").to_string();
                let r = if kind == "relax" {
                    let mut p = std::collections::HashMap::new();
                    p.insert("step".to_string(), reason.clone());
                    inst.relax_constraint(id, reason, p)
                } else {
                    inst.restore_constraint(id)
                };
                results.push(r.is_ok());
            }
            let mut out = json!({"results": results, "instance": enc(&inst)});
            if let Some(s) = case["state"].as_str() {
                if !s.is_empty() {
                    let st: v1::State = msg(&case["state"])?;
                    if let Ok((sol, _)) = inst.evaluate(&st) {
                        out["solution"] = enc(&sol);
                    }
                }
            }
            json!({"ok": out})
        }
        "penalty_method" | "uniform_penalty_method" => {
            let inst: v1::Instance = msg(&case["instance"])?;
            let r = if op == "penalty_method" { inst.penalty_method() } else { inst.uniform_penalty_method() };
            match r {
                Ok(p) => json!({"ok": {"parametric": enc(&p)}}),
                Err(e) => errv(e),
            }
        }
        "with_parameters" => {
            let p: v1::ParametricInstance = msg(&case["parametric"])?;
            let params: v1::Parameters = msg(&case["parameters"])?;
            match p.with_parameters(params) {
                Ok(i) => json!({"ok": {"instance": enc(&i)}}),
                Err(e) => errv(e),
            }
        }
        "instance_roundtrip" => {
            // Instance -> ParametricInstance -> with_parameters(no values)
            let inst: v1::Instance = msg(&case["instance"])?;
            let p: v1::ParametricInstance = inst.into();
            match p.with_parameters(v1::Parameters::default()) {
                Ok(i) => json!({"ok": {"instance": enc(&i)}}),
                Err(e) => errv(e),
            }
        }
        "pubo" => {
            let inst: v1::Instance = msg(&case["instance"])?;
            match inst.as_pubo_format() {
                Ok(m) => {
                    let terms: Vec<Value> = m.iter().map(|(k, c)| json!([k.iter().cloned().collect::<Vec<u64>>(), fj(*c)])).collect();
                    json!({"ok": {"terms": terms}})
                }
                Err(e) => errv(e),
            }
        }
        "qubo" => {
            let inst: v1::Instance = msg(&case["instance"])?;
            match inst.as_qubo_format() {
                Ok((m, off)) => {
                    let terms: Vec<Value> = m.iter().map(|(k, c)| json!([[k.0, k.1], fj(*c)])).collect();
                    json!({"ok": {"terms": terms, "offset": fj(off)}})
                }
                Err(e) => errv(e),
            }
        }
        "as_minimization" => {
            let mut inst: v1::Instance = msg(&case["instance"])?;
            inst.as_minimization_problem();
            let once = enc(&inst);
            inst.as_minimization_problem();
            json!({"ok": {"once": once, "twice": enc(&inst)}})
        }
        "best_feasible" => {
            let ss: v1::SampleSet = msg(&case["sample_set"])?;
            let unrelaxed = case["unrelaxed"].as_bool().unwrap_or(false);
            let r = if unrelaxed { ss.best_feasible_unrelaxed_id() } else { ss.best_feasible_id() };
            match r {
                Ok(id) => json!({"ok": {"id": id}}),
                Err(e) => errv(e),
            }
        }
        "validate" => {
            let inst: v1::Instance = msg(&case["instance"])?;
            match inst.validate() {
                Ok(()) => json!({"ok": true}),
                Err(e) => errv(e),
            }
        }
        "validate_parametric" => {
            let p: v1::ParametricInstance = msg(&case["parametric"])?;
            match p.validate() {
                Ok(()) => json!({"ok": true}),
                Err(e) => errv(e),
            }
        }
        "try_from_instance" => {
            let inst: v1::Instance = msg(&case["instance"])?;
            match ommx::Instance::try_from(inst) {
                Ok(t) => {
                    // the typed fields are private: read the variable bounds from the Debug rendering
                    let dbg = format!("{:?}", t);
                    let mut bounds = serde_json::Map::new();
                    let key = "DecisionVariable { id: VariableID(";
                    let mut rest = dbg.as_str();
                    while let Some(p) = rest.find(key) {
                        rest = &rest[p + key.len()..];
                        let id: String = rest.chars().take_while(|c| c.is_ascii_digit()).collect();
                        if let Some(b) = rest.find("bound: Bound { lower: ") {
                            let tail = &rest[b + "bound: Bound { lower: ".len()..];
                            let lo: String = tail.chars().take_while(|c| *c != ',').collect();
                            if let Some(u) = tail.find("upper: ") {
                                let t2 = &tail[u + 7..];
                                let hi: String = t2.chars().take_while(|c| *c != ' ' && *c != '}').collect();
                                let f = |s: &str| -> Value { match s.parse::<f64>() { Ok(x) => fj(x), Err(_) => json!(s) } };
                                bounds.insert(id, json!([f(&lo), f(&hi)]));
                            }
                        }
                    }
                    json!({"ok": {"bounds": bounds}})
                }
                Err(e) => json!({"err": format!("{e}"), "debug": format!("{e:?}")}),
            }
        }
        "log_encode" => {
            let mut inst: v1::Instance = msg(&case["instance"])?;
            match inst.log_encode(ju(&case["id"])?) {
                Ok(l) => json!({"ok": {"linear": enc(&l), "instance": enc(&inst)}}),
                Err(e) => errv(e),
            }
        }
        "convert_to_equality" | "add_integer_slack" => {
            let mut inst: v1::Instance = msg(&case["instance"])?;
            let id = ju(&case["id"])?;
            let r: Result<Value> = if op == "convert_to_equality" {
                inst.convert_inequality_to_equality_with_integer_slack(id, ju(&case["max_range"])?).map(|_| json!(null))
            } else {
                inst.add_integer_slack_to_inequality(id, ju(&case["upper"])?).map(|b| match b { Some(x) => fj(x), None => json!(null) })
            };
            match r {
                Ok(b) => json!({"ok": {"instance": enc(&inst), "b": b}}),
                Err(e) => {
                    let infeasible = e.downcast_ref::<ommx::InfeasibleDetected>().is_some();
                    json!({"err": format!("{e:#}"), "infeasible": infeasible, "instance": enc(&inst)})
                }
            }
        }
        "bound_ops" => {
            let a = ommx::Bound::new(jf(&case["a"][0])?, jf(&case["a"][1])?)?;
            let b = ommx::Bound::new(jf(&case["b"][0])?, jf(&case["b"][1])?)?;
            let e = ju(&case["exp"])? as u8;
            let m = a * b;
            let p = a.pow(e);
            json!({"ok": {"mul": [fj(m.lower()), fj(m.upper())], "pow": [fj(p.lower()), fj(p.upper())]}})
        }
        "bound_scale" => {
            let a = ommx::Bound::new(jf(&case["a"][0])?, jf(&case["a"][1])?)?;
            let k = jf(&case["k"])?;
            let m = a * k;
            json!({"ok": [fj(m.lower()), fj(m.upper())]})
        }
        "evaluate_bound" => {
            let f: Function = msg(&case["f"])?;
            let mut bounds = ommx::Bounds::new();
            for (k, v) in case["bounds"].as_object().ok_or_else(|| anyhow!("bounds"))? {
                bounds.insert(ommx::VariableID::from(k.parse::<u64>()?), ommx::Bound::new(jf(&v[0])?, jf(&v[1])?)?);
            }
            let b = f.evaluate_bound(&bounds);
            json!({"ok": {"bound": [fj(b.lower()), fj(b.upper())]}})
        }
        "content_factor" => {
            let f: Function = msg(&case["f"])?;
            match f.content_factor() {
                Ok(a) => json!({"ok": fj(a)}),
                Err(e) => errv(e),
            }
        }
        "mps_load" => {
            let text = case["text"].as_str().ok_or_else(|| anyhow!("text"))?;
            match ommx::mps::load_raw_reader(text.as_bytes()) {
                Ok(i) => json!({"ok": {"instance": enc(&i)}}),
                Err(e) => json!({"err": format!("{e}")}),
            }
        }
        "mps_roundtrip" => {
            let inst: v1::Instance = msg(&case["instance"])?;
            let dir = std::env::temp_dir().join(format!("ommx-replay-{}", std::process::id()));
            std::fs::create_dir_all(&dir)?;
            let path = dir.join("roundtrip.mps.gz");
            let r = match ommx::mps::write_file(&inst, &path) {
                Err(e) => json!({"write_err": format!("{e}")}),
                Ok(()) => {
                    let mut text = String::new();
                    {
                        use std::io::Read;
                        let f = std::fs::File::open(&path)?;
                        flate2::read::GzDecoder::new(f).read_to_string(&mut text)?;
                    }
                    match ommx::mps::load_file(&path) {
                        Ok(i) => json!({"ok": {"instance": enc(&i), "text": text}}),
                        Err(e) => json!({"read_err": format!("{e}"), "text": text}),
                    }
                }
            };
            let _ = std::fs::remove_dir_all(&dir);
            r
        }
        "qplib_load" => {
            let text = case["text"].as_str().ok_or_else(|| anyhow!("text"))?;
            let dir = std::env::temp_dir().join(format!("ommx-replay-{}", std::process::id()));
            std::fs::create_dir_all(&dir)?;
            let path = dir.join("case.qplib");
            std::fs::write(&path, text)?;
            let r = match ommx::qplib::load_file(&path) {
                Ok(i) => json!({"ok": {"instance": enc(&i)}}),
                Err(e) => json!({"err": format!("{e}")}),
            };
            let _ = std::fs::remove_dir_all(&dir);
            r
        }
        "wire" => {
            let ty = case["type"].as_str().ok_or_else(|| anyhow!("type"))?;
            let bytes = unhex(case["hex"].as_str().ok_or_else(|| anyhow!("hex"))?)?;
            wire(ty, &bytes)?
        }
        "artifact" => artifact_op(case)?,
        "annotations" => annotations_op(case)?,
        "artifact_manifest" => {
            use ommx::ocipkg::image::{OciArchiveBuilder, OciArtifactBuilder};
            use ommx::ocipkg::oci_spec::image::MediaType;
            let dir = std::env::temp_dir().join(format!("ommx-replay-man-{}", std::process::id()));
            let _ = std::fs::remove_dir_all(&dir);
            std::fs::create_dir_all(&dir)?;
            let path = dir.join("m.ommx");
            let r = (|| -> Result<Value> {
                let t = case["artifact_type"].as_str().unwrap_or("").to_string();
                let b = OciArtifactBuilder::new(OciArchiveBuilder::new_unnamed(path.clone())?, MediaType::Other(t))?;
                let _ = b.build()?;
                let mut a = ommx::artifact::Artifact::from_oci_archive(&path)?;
                Ok(match a.get_manifest() {
                    Ok(_) => json!({"ok": true}),
                    Err(e) => json!({"err": format!("{e}")}),
                })
            })();
            let _ = std::fs::remove_dir_all(&dir);
            match r {
                Ok(v) => v,
                Err(e) => json!({"build_err": format!("{e:#}")}),
            }
        }
        "enum_table" => {
            let mut out = serde_json::Map::new();
            macro_rules! tab {
                ($name:literal, $t:ty) => {{
                    let mut rows = vec![];
                    for i in -2i32..10 {
                        match <$t>::try_from(i) {
                            Ok(v) => rows.push(json!([i, v.as_str_name(), <$t>::from_str_name(v.as_str_name()).map(|x| x as i32)])),
                            Err(_) => rows.push(json!([i, Value::Null, Value::Null])),
                        }
                    }
                    out.insert($name.to_string(), Value::Array(rows));
                }};
            }
            tab!("ommx.v1.Equality", v1::Equality);
            tab!("ommx.v1.DecisionVariable.Kind", v1::decision_variable::Kind);
            tab!("ommx.v1.Instance.Sense", v1::instance::Sense);
            tab!("ommx.v1.Optimality", v1::Optimality);
            tab!("ommx.v1.Relaxation", v1::Relaxation);
            json!({"ok": Value::Object(out)})
        }
        _ => bail!("unknown op {op}"),
    })
}

fn wire_as<M: prost::Message + Default + PartialEq>(bytes: &[u8]) -> Value {
    match M::decode(bytes) {
        Err(e) => json!({"err": format!("{e}")}),
        Ok(m) => {
            let again = m.encode_to_vec();
            let stable = M::decode(again.as_slice()).map(|m2| m2 == m).unwrap_or(false);
            let mut c = M::decode(bytes).unwrap();
            c.clear();
            json!({"ok": {"hex": hex(&again), "debug": format!("{m:?}"), "stable": stable, "len_ok": m.encoded_len() == again.len(), "clear_is_default": c == M::default()}})
        }
    }
}

fn wire(ty: &str, b: &[u8]) -> Result<Value> {
    Ok(match ty {
        "ommx.v1.Linear" => wire_as::<v1::Linear>(b),
        "ommx.v1.Linear.Term" => wire_as::<v1::linear::Term>(b),
        "ommx.v1.Monomial" => wire_as::<v1::Monomial>(b),
        "ommx.v1.Polynomial" => wire_as::<v1::Polynomial>(b),
        "ommx.v1.Quadratic" => wire_as::<v1::Quadratic>(b),
        "ommx.v1.Function" => wire_as::<v1::Function>(b),
        "ommx.v1.Constraint" => wire_as::<v1::Constraint>(b),
        "ommx.v1.EvaluatedConstraint" => wire_as::<v1::EvaluatedConstraint>(b),
        "ommx.v1.RemovedConstraint" => wire_as::<v1::RemovedConstraint>(b),
        "ommx.v1.OneHot" => wire_as::<v1::OneHot>(b),
        "ommx.v1.SOS1" => wire_as::<v1::Sos1>(b),
        "ommx.v1.ConstraintHints" => wire_as::<v1::ConstraintHints>(b),
        "ommx.v1.Bound" => wire_as::<v1::Bound>(b),
        "ommx.v1.DecisionVariable" => wire_as::<v1::DecisionVariable>(b),
        "ommx.v1.Parameters" => wire_as::<v1::Parameters>(b),
        "ommx.v1.Instance" => wire_as::<v1::Instance>(b),
        "ommx.v1.Instance.Description" => wire_as::<v1::instance::Description>(b),
        "ommx.v1.Parameter" => wire_as::<v1::Parameter>(b),
        "ommx.v1.ParametricInstance" => wire_as::<v1::ParametricInstance>(b),
        "ommx.v1.State" => wire_as::<v1::State>(b),
        "ommx.v1.Solution" => wire_as::<v1::Solution>(b),
        "ommx.v1.Infeasible" => wire_as::<v1::Infeasible>(b),
        "ommx.v1.Unbounded" => wire_as::<v1::Unbounded>(b),
        "ommx.v1.Result" => wire_as::<v1::Result>(b),
        "ommx.v1.Samples" => wire_as::<v1::Samples>(b),
        "ommx.v1.Samples.SamplesEntry" => wire_as::<v1::samples::SamplesEntry>(b),
        "ommx.v1.SampledValues" => wire_as::<v1::SampledValues>(b),
        "ommx.v1.SampledValues.SampledValuesEntry" => wire_as::<v1::sampled_values::SampledValuesEntry>(b),
        "ommx.v1.SampledDecisionVariable" => wire_as::<v1::SampledDecisionVariable>(b),
        "ommx.v1.SampledConstraint" => wire_as::<v1::SampledConstraint>(b),
        "ommx.v1.SampleSet" => wire_as::<v1::SampleSet>(b),
        _ => bail!("unknown message type {ty}"),
    })
}

#[allow(dead_code)]
fn unused() -> anyhow::Error {
    anyhow!("x")
}

// ----------------------------------------------------------------------------- artifacts (C20)

fn ann_map(v: &Value) -> std::collections::HashMap<String, String> {
    v.as_object()
        .map(|o| o.iter().map(|(k, x)| (k.clone(), x.as_str().unwrap_or("").to_string())).collect())
        .unwrap_or_default()
}

fn ann_json(m: &std::collections::HashMap<String, String>) -> Value {
    let mut o = serde_json::Map::new();
    for (k, v) in m {
        o.insert(k.clone(), json!(v));
    }
    Value::Object(o)
}

/// builds a local OCI archive with the listed layers, reopens it from the file and queries it
fn artifact_op(case: &Value) -> Result<Value> {
    use ommx::artifact::*;
    use ommx::ocipkg::Digest;
    let dir = std::env::temp_dir().join(format!("ommx-replay-art-{}-{}", std::process::id(), case["nonce"].as_u64().unwrap_or(0)));
    let _ = std::fs::remove_dir_all(&dir);
    std::fs::create_dir_all(&dir)?;
    let path = dir.join("a.ommx");
    let r = (|| -> Result<Value> {
        let mut b = Builder::new_archive_unnamed(path.clone())?;
        for l in case["layers"].as_array().ok_or_else(|| anyhow!("layers"))? {
            let ann = ann_map(&l["annotations"]);
            match l["kind"].as_str().unwrap_or("") {
                "instance" => b.add_instance(msg(&l["hex"])?, InstanceAnnotations::from(ann))?,
                "solution" => b.add_solution(msg(&l["hex"])?, SolutionAnnotations::from(ann))?,
                "parametric_instance" => b.add_parametric_instance(msg(&l["hex"])?, ParametricInstanceAnnotations::from(ann))?,
                "sample_set" => b.add_sample_set(msg(&l["hex"])?, SampleSetAnnotations::from(ann))?,
                k => bail!("kind {k}"),
            }
        }
        let _built = b.build()?;
        let mut a = Artifact::from_oci_archive(&path)?;
        let manifest = a.get_manifest()?;
        let descs: Vec<_> = manifest.layers().iter().map(|d| json!({"digest": d.digest(), "media_type": d.media_type().to_string()})).collect();
        let mut digests: Vec<String> = manifest.layers().iter().map(|d| d.digest().to_string()).collect();
        digests.push("sha256:0000000000000000000000000000000000000000000000000000000000000000".to_string());
        let mut gets = vec![];
        for d in &digests {
            let dg = Digest::new(d)?;
            let mut row = serde_json::Map::new();
            row.insert("instance".into(), match a.get_instance(&dg) { Ok((m, an)) => json!({"ok": {"hex": enc(&m), "annotations": ann_json(&an)}}), Err(e) => json!({"err": format!("{e}")}) });
            row.insert("solution".into(), match a.get_solution(&dg) { Ok((m, an)) => json!({"ok": {"hex": enc(&m), "annotations": ann_json(&an)}}), Err(e) => json!({"err": format!("{e}")}) });
            row.insert("parametric_instance".into(), match a.get_parametric_instance(&dg) { Ok((m, an)) => json!({"ok": {"hex": enc(&m), "annotations": ann_json(&an)}}), Err(e) => json!({"err": format!("{e}")}) });
            row.insert("sample_set".into(), match a.get_sample_set(&dg) { Ok((m, an)) => json!({"ok": {"hex": enc(&m), "annotations": ann_json(&an)}}), Err(e) => json!({"err": format!("{e}")}) });
            gets.push(Value::Object(row));
        }
        let instances: Vec<_> = a.get_instances()?.iter().map(|(d, m)| json!({"digest": d.digest(), "hex": enc(m)})).collect();
        let solutions: Vec<_> = a.get_solutions()?.iter().map(|(d, m)| json!({"digest": d.digest(), "hex": enc(m)})).collect();
        let by_type = |a: &mut Artifact<ommx::ocipkg::image::OciArchive>, mt| -> Result<Vec<String>> {
            Ok(a.get_layer_descriptors(&mt)?.iter().map(|d| d.digest().to_string()).collect())
        };
        let lists = json!({
            "instance": by_type(&mut a, media_types::v1_instance())?,
            "solution": by_type(&mut a, media_types::v1_solution())?,
            "parametric_instance": by_type(&mut a, media_types::v1_parametric_instance())?,
            "sample_set": by_type(&mut a, media_types::v1_sample_set())?,
        });
        Ok(json!({"ok": {"layers": descs, "get": gets, "instances": instances, "solutions": solutions, "descriptors": lists}}))
    })();
    let _ = std::fs::remove_dir_all(&dir);
    Ok(match r {
        Ok(v) => v,
        Err(e) => json!({"err": format!("{e:#}")}),
    })
}

/// applies setters of one annotation type and reads every getter back
fn annotations_op(case: &Value) -> Result<Value> {
    use ommx::artifact::*;
    let ty = case["type"].as_str().unwrap_or("");
    let sets = case["set"].as_array().cloned().unwrap_or_default();
    macro_rules! common {
        ($t:ty) => {{
            let mut a = <$t>::default();
            for s in &sets {
                let v = &s[1];
                match s[0].as_str().unwrap_or("") {
                    "title" => a.set_title(v.as_str().unwrap_or("").to_string()),
                    "authors" => a.set_authors(v.as_array().map(|x| x.iter().map(|y| y.as_str().unwrap_or("").to_string()).collect()).unwrap_or_default()),
                    "license" => a.set_license(v.as_str().unwrap_or("").to_string()),
                    "dataset" => a.set_dataset(v.as_str().unwrap_or("").to_string()),
                    "variables" => a.set_variables(v.as_u64().unwrap_or(0) as usize),
                    "constraints" => a.set_constraints(v.as_u64().unwrap_or(0) as usize),
                    "created" => a.set_created(chrono::DateTime::parse_from_rfc3339(v.as_str().unwrap_or(""))?.with_timezone(&chrono::Local)),
                    "other" => a.set_other(v[0].as_str().unwrap_or("").to_string(), v[1].as_str().unwrap_or("").to_string()),
                    k => bail!("setter {k}"),
                }
            }
            let opt = |r: Result<&String>| r.ok().cloned();
            json!({"ok": {
                "title": opt(a.title()), "license": opt(a.license()), "dataset": opt(a.dataset()),
                "authors": a.authors().ok().map(|it| it.map(|x| x.to_string()).collect::<Vec<_>>()),
                "variables": a.variables().ok(), "constraints": a.constraints().ok(),
                "created": a.created().ok().map(|d| d.timestamp_nanos_opt()),
                "map": ann_json(&a.clone().into_inner()),
            }})
        }};
    }
    macro_rules! run_like {
        ($t:ty) => {{
            let mut a = <$t>::default();
            for s in &sets {
                let v = &s[1];
                match s[0].as_str().unwrap_or("") {
                    "start" => a.set_start(chrono::DateTime::parse_from_rfc3339(v.as_str().unwrap_or(""))?.with_timezone(&chrono::Local)),
                    "end" => a.set_end(chrono::DateTime::parse_from_rfc3339(v.as_str().unwrap_or(""))?.with_timezone(&chrono::Local)),
                    "instance" => a.set_instance(ommx::ocipkg::Digest::new(v.as_str().unwrap_or(""))?),
                    "solver" => a.set_solver(ommx::ocipkg::Digest::new(v.as_str().unwrap_or(""))?),
                    "other" => a.set_other(v[0].as_str().unwrap_or("").to_string(), v[1].as_str().unwrap_or("").to_string()),
                    k => bail!("setter {k}"),
                }
            }
            json!({"ok": {
                "start": a.start().ok().map(|d| d.timestamp_nanos_opt()), "end": a.end().ok().map(|d| d.timestamp_nanos_opt()),
                "instance": a.instance().ok().map(|d| d.to_string()), "solver": a.solver().ok().map(|d| d.to_string()),
                "map": ann_json(&a.clone().into_inner()),
            }})
        }};
    }
    Ok(match ty {
        "instance" => common!(InstanceAnnotations),
        "parametric_instance" => common!(ParametricInstanceAnnotations),
        "solution" => run_like!(SolutionAnnotations),
        "sample_set" => run_like!(SampleSetAnnotations),
        _ => bail!("annotation type {ty}"),
    })
}
