use anyhow::{anyhow, bail, Result};
use prost::Message;
use serde_json::{json, Value};

pub fn unhex(s: &str) -> Result<Vec<u8>> {
    if s.len() % 2 != 0 {
        bail!("odd hex length");
    }
    (0..s.len())
        .step_by(2)
        .map(|i| u8::from_str_radix(&s[i..i + 2], 16).map_err(|e| anyhow!("hex: {e}")))
        .collect()
}

pub fn hex(b: &[u8]) -> String {
    b.iter().map(|x| format!("{:02x}", x)).collect()
}

pub fn msg<M: Message + Default>(v: &Value) -> Result<M> {
    let s = v.as_str().ok_or_else(|| anyhow!("expected hex string, got {v}"))?;
    Ok(M::decode(unhex(s)?.as_slice())?)
}

pub fn enc<M: Message>(m: &M) -> Value {
    Value::String(hex(&m.encode_to_vec()))
}

pub fn fj(x: f64) -> Value {
    if x.is_nan() {
        json!("nan")
    } else if x == f64::INFINITY {
        json!("inf")
    } else if x == f64::NEG_INFINITY {
        json!("-inf")
    } else {
        json!(x)
    }
}

pub fn jf(v: &Value) -> Result<f64> {
    match v {
        Value::Number(n) => n.as_f64().ok_or_else(|| anyhow!("bad number")),
        Value::String(s) => match s.as_str() {
            "inf" | "pinf" => Ok(f64::INFINITY),
            "-inf" | "ninf" => Ok(f64::NEG_INFINITY),
            "nan" => Ok(f64::NAN),
            _ => s.parse::<f64>().map_err(|e| anyhow!("bad float {s}: {e}")),
        },
        _ => bail!("expected float, got {v}"),
    }
}

pub fn ju(v: &Value) -> Result<u64> {
    v.as_u64().ok_or_else(|| anyhow!("expected u64, got {v}"))
}

pub fn ids<I: IntoIterator<Item = u64>>(it: I) -> Value {
    Value::Array(it.into_iter().map(|x| json!(x)).collect())
}
