#!/usr/bin/env python3
"""regenerates MANIFEST.json from the table below (keeps it valid at all times)"""
import json, os
HERE = os.path.dirname(os.path.abspath(__file__))
CLAIMED = {
    'C01': dict(design='2/C01', text='Bounded symbolic execution of the real Function/Linear/Quadratic/Polynomial::evaluate MIR bodies with z3: for every '
                'message shape (<=3 terms/entries/monomials, degree<=4), symbolic 64-bit ids, symbolic real coefficients and state values and '
                'every presence pattern of the state keys, the solver shows value = driver-built denotation, used-id set = ids occurring, '
                'Err iff an occurring id is missing. Counterexamples are replayed natively before being reported.',
                note='R-model (exact real arithmetic on finite f64; bit-exact on small dyadic inputs by the stated certificate); library models of '
                'std/anyhow containers trusted and validated against the native crate each run; bounds as listed in evidence.'),
}
CLAIMED['C02'] = dict(design='2/C02', text='Every Add/Sub/Mul/Neg impl body that the MIR defines for the 7x7 operand kinds (f64, &DecisionVariable, &Parameter, Linear, '
    'Quadratic, Polynomial, Function; macro-generated impls included) is executed symbolically: operands with <=2 non-constant terms, every id '
    'pattern over {0,1,2} (constants split over two monomials included), plus wide operands (6-8 terms, 4 for products) over concrete unsorted id patterns with repeats, symbolic real coefficients; BTreeMap keys are ordered and merged through the crate\'s own Ord impls; the iterator folds (Sum for Linear, Sum / Product for Function) over two operands; z3 proves coefficient-wise agreement of the result message with the exact polynomial '
    'sum/difference/product within the documented epsilon-dropping allowance, that no term is lost by the result type, and that the term '
    'iterators yield sorted ids summing to the polynomial.',
    note='R-model; coefficient domain 0 or magnitude in [2^-10,2^10] (positive only for the larger operand pairs, recorded per harness); '
    'quadratic operands without duplicate positions; Function operands with the oneof set; library models trusted and validated natively each run.')
CLAIMED['C05'] = dict(design='2/C05', text='Instance::evaluate (check_bound, get_bounds, constraint/removed-constraint evaluation, is_feasible, eval_dependencies, '
    'nearest_to_zero fill) is executed symbolically end to end on instance skeletons (<=3 variables of every kind and bound shape, <=2 active + <=2 removed '
    'constraints, dependencies, fixed values); state values, coefficients, constants and bound endpoints are symbolic, so values on either side of the 1e-6 and '
    '1e-7 tolerances are solver cases. z3 proves every Solution field equals the driver-computed expectation and that rejection happens exactly when required.',
    note='R-model; valid instances only; skeleton sizes as listed in evidence; library models trusted and validated natively each run.')
CLAIMED['C03'] = dict(design='2/C03', text='partial_evaluate of Function/Linear/Quadratic/Polynomial, Constraint, RemovedConstraint and Instance followed by evaluate is executed '
    'symbolically and compared with the driver-computed value of the original at the combined assignment: every id pattern over {0,1,2}, ten splits of the state '
    'into first fixed part / second fixed part / remaining part / absent, symbolic coefficients and values; also: no fixed id is mentioned afterwards, returned ids '
    'are fixed ids that occurred, fixed values are recorded on the decision variables, two-step fixing equals one-step fixing.',
    note='R-model with magnitudes in {0} u [2^-6,2^6]; equality up to the documented epsilon-dropping allowance; in-bound states; library models trusted and validated natively each run.')
CLAIMED['C04'] = dict(design='2/C04', text='Function::substitute is executed symbolically for every small f (<=3 monomials, degree<=2, ids over {0,1,2}) and replacement maps '
    'with 1..2 entries of degree<=2 that may mention replaced variables (with two entries each replacement may mention the other key, and both iteration orders of the replacement map are explored); z3 proves coefficient-wise agreement with the driver-built simultaneous composition. '
    'eval_dependencies is executed for every directed dependency graph on <=3 (quick) / 4 (thorough) dependent variables, every iteration order of the dependency '
    'HashMap and base variable present/absent: Ok with the right values iff acyclic and grounded, Err otherwise, always within the step budget. '
    'Instance::substitute (one step and a two-step chain) followed by evaluate is compared with the original evaluated at the implied full assignment.',
    note='R-model with bounded coefficient magnitudes; HashMap order modelled as an arbitrary permutation; replacement maps with 3-4 entries are outside the bound; '
    'library models trusted and validated natively each run.')
CLAIMED['C14'] = dict(design='2/C14', text='Instance::relax_constraint / restore_constraint are executed for every operation sequence of length <=4 (quick) / <=6 (thorough) over '
    'relax(id)/restore(id) with known and unknown ids on an instance with 2 active + 1 removed constraint; after every step the solver-checked assertions are: the '
    'collection of (id, function, equality, metadata) is unchanged, every id is in exactly one list, reasons are recorded, a failing operation leaves the instance '
    'equal to before; after the sequence Instance::evaluate at a symbolic state gives unchanged per-constraint values and feasibility, relaxed feasibility = conjunction over the active ones.',
    note='R-model; sequences longer than the bound (the property quantifies to 8) are outside; library models trusted and validated natively each run.')
CLAIMED['C09'] = dict(design='2/C09', text='Instance::penalty_method and uniform_penalty_method (with the Function algebra they call) are executed symbolically on instances with 0-2 '
    'active and 0-1 previously removed constraints, constraint functions unset/constant/linear/quadratic over non-contiguous ids, symbolic coefficients, sense and '
    'equalities: z3 proves no active constraint remains, every input constraint (previously removed ones included) is kept with unchanged id/function/equality, one '
    'tagged fresh parameter per penalised constraint (one for uniform) with ids disjoint from variable ids, variables/sense/dependencies carried over, and the new '
    'objective equals f + sum w_c g_c^2 (resp. w * sum g_c^2) coefficient-wise.',
    note='R-model with bounded coefficient magnitudes; the defect found by this check (previously removed constraints dropped) was repaired by a fix: commit, see known_findings.json; '
    'library models trusted and validated natively each run.')
CLAIMED['C10'] = dict(design='2/C10', text='ParametricInstance::with_parameters (and the partial_evaluate bodies it drives) is executed symbolically: parameters anywhere in objective '
    'and active constraints (degree<=3, every id pattern over variable/parameter ids), each declared parameter supplied or missing, an unrelated extra id, symbolic values. '
    'z3 proves Err iff a declared parameter is missing; otherwise every function equals the parametric function with the parameters evaluated (coefficient-wise), variables, sense, '
    'constraint ids, removed constraints and hints are unchanged and the supplied values are recorded. Instance -> ParametricInstance -> with_parameters(empty) keeps every function.',
    note='R-model with bounded magnitudes; epsilon-dropping allowance; library models trusted and validated natively each run.')
CLAIMED['C11'] = dict(design='2/C11', text='Instance::as_pubo_format / as_qubo_format (with the term iterators, BinaryIds / BinaryIdPair conversions and orderings) are executed symbolically on '
    'objectives of degree<=4 with <=3 monomials and every id pattern over 3 variables (repeated ids, x^2, cancelling terms), symbolic coefficients, both senses, with/without an active '
    'constraint and a non-binary variable. Since two multilinear polynomials agree on {0,1}^n iff their coefficients agree, z3 proves the exported dictionary equals the objective reduced '
    'modulo x^2=x coefficient-wise (all 2^n assignments at once), keys canonical, no stored zero, and refusal exactly under the stated conditions.',
    note='R-model; n=3 variables (the property bounds n<=12); library models trusted and validated natively each run.')
CLAIMED['C15'] = dict(design='2/C15', text='Instance::as_minimization_problem is executed symbolically for every objective arm and both senses (once and twice): sense becomes minimise, the objective '
    'is negated exactly for maximisation (coefficient-wise, exact), everything else untouched. SampleSet::best_feasible(_unrelaxed)(_id) is executed on sample sets with 1..3 (quick) / 4 '
    '(thorough) samples, symbolic objective values (ties are solver cases), every feasibility pattern of both tables, both senses, the legacy and the current feasibility layout and every '
    'grouping of equal values: the returned sample is feasible in the requested sense and unbeaten, Err iff none is feasible, the returned Solution is that sample.',
    note='R-model; NaN objectives outside; more than 4 samples outside (property: 8); library models trusted and validated natively each run.')
CLAIMED['C06'] = dict(design='2/C06', text='Instance::evaluate_samples (Samples::map/transpose/ids/states_mut, SampledValues grouping by OrderedFloat, SampledConstraint::is_feasible/get) '
    'followed by SampleSet::get(id) is executed symbolically for 1..2 (quick) / 3 (thorough) sample ids, every partition of the ids into entries, symbolic state values (equal states and equal '
    'evaluated values are solver cases), states that omit the irrelevant variable, a fixed variable and a dependency that refers to it; z3 proves every extracted Solution field equals the '
    'driver-computed per-sample evaluation and that the objective and feasibility tables are keyed by exactly the submitted ids.',
    note='R-model; in-bound states; the defect found by this check (samples omitting an unused variable made SampleSet::get fail) was repaired by a fix: commit, see known_findings.json; '
    'HashMap iteration orders explored only for the 1-sample harness; more than 3 samples outside (property: 8).')
CLAIMED['C08'] = dict(design='2/C08', text='Instance::validate and ParametricInstance::validate are executed for every combination of variable / parameter / constraint ids and used '
    'ids from small defined/undefined sets (single and double faults are regions of one explored space): Ok iff ids unique and used ids defined. TryFrom<v1::Instance> (all Parse impls, '
    'as_variable_id / as_constraint_id, Bound::new) is executed with fully symbolic 32-bit sense/kind/equality fields, every optional message field present or absent, symbolic bound '
    'endpoints incl. NaN/+-inf, hints and dependencies over defined/undefined/repeated ids: z3 proves Ok iff the driver predicate, and that the typed view keeps ids, bounds (unspecified = '
    'unbounded, [0,1] for binaries) and fixed values.',
    note='R-model for bounds; two defects found: unspecified bound read as [0,0] (repaired by a fix: commit) and undefined variable ids inside functions accepted by the typed conversion '
    '(recorded in known_findings.json, printed as KNOWN-FINDING); BoundError::check is additionally decided under true IEEE-754 by the Kani harness bound_new_accepts_exactly_valid (C16 run).')
CLAIMED['C12'] = dict(design='2/C12', text='Instance::log_encode is executed symbolically with bounds on the half-integer grid k/2, |k|<=2^21 (symbolic integers), and with endpoints a hair (2^-30) above / below an integer (symbolic integer part in [-12,12]), every kind, missing / infinite / NaN '
    'bounds and an unknown id; ceil(log2(.)) is modelled by bracketing (one path per bit count 1..21). z3 proves: registered binaries (fresh consecutive ids, kind binary, [0,1], tagged), '
    'constant = ceil(l), coefficients sum to the width and their subset sums are exactly the integers of the range (directly for < 64 values, complete-sequence criterion above), '
    'a single-integer range gives a constant, every error condition gives Err within the step budget.',
    note='R-model; libm log2 bracketing assumption listed in evidence; the defect found (no termination for an infinite bound) was repaired by a fix: commit.')
CLAIMED['C13'] = dict(design='2/C13', text='convert_inequality_to_equality_with_integer_slack and add_integer_slack_to_inequality (with content_factor, evaluate_bound, Bound arithmetic, '
    'as_integer_bound, relax_constraint) are executed on linear and bilinear constraints with listed concrete integer/dyadic coefficients, variables listed in ascending or non-ascending id order, symbolic integer boxes in [-3,3], symbolic integer '
    'points: z3 proves f(x)<=0 <=> some integer slack inside the new bound satisfies the new equality (closed form s=-f(x)/b), the projection property and reported b for the additive slack, '
    'always-true => moved unchanged and really always true on the box, infeasible error => never true on the box, and that rejected calls leave the instance unchanged.',
    note='R-model; coefficients concrete (Rational64::approximate_float is a concrete model, differentially validated); non-dyadic rationals outside; the defect found (equality constraints '
    'not rejected) was repaired by a fix: commit.')
CLAIMED['C16'] = dict(design='2/C16', engine='kani+mirsym', technique='Kani/CBMC (SAT over the compiled crate, true IEEE-754) for the additive, scaling and rounding kernels; '
    'bounded symbolic execution of rustc MIR + z3 (exact reals with inf/NaN rules) for Bound::mul, Bound::pow and Function::evaluate_bound; counterexamples replayed natively',
    text='Engine K: Kani proves for fully symbolic doubles that Bound::new accepts exactly the valid intervals, as_integer_bound keeps every integer, nearest_to_zero / intersection / '
    'partial_cmp(f64) / contains follow their rules, and on a restricted-mantissa domain (0, +-inf, 6-bit mantissa, |e|<=8) that Bound+Bound, Bound+f64 and Bound*f64 (non-zero) enclose the '
    'pointwise result and stay valid. Engine M: the real bodies of Bound::mul, Bound::pow(0..6) and Function::evaluate_bound are executed with every endpoint in {-inf, symbolic, +inf} and '
    'symbolic points in the box: z3 proves enclosure and validity (no NaN endpoint, ordered, no unwrap panic).',
    note='Two known findings (Bound + Bound and Bound * f64 panic when finite endpoints near f64::MAX overflow) are detected by full-range Kani probes each run and printed as KNOWN-FINDING; '
    'the "smallest multiplier" clause (Function::content_factor) is NOT solver-decided: the real body is executed from MIR on every concrete coefficient tuple over a 17-element pool '
    '(4 function shapes) against lcm(denominators)/gcd(numerators) — bounded exhaustive exploration, labelled as such in evidence; approximate_float is a binary64 port validated natively each run; '
    'rounding monotonicity outside the R-model half.')
CLAIMED['C17'] = dict(design='2/C17', text='The MPS parser state machine (read_header, read_row_field, read_column_field, read_rhs_field, read_range_field, read_bound_field, finish, '
    'from_lines) and mps::convert::* are executed from MIR on files rendered by an independent writer from abstract models (2 columns x 2 rows; thorough tier also 3 x 3; 3- and 5-field COLUMNS / RHS / RANGES lines; every row type, 14 bound scenarios, '
    'positive/negative ranges, objective constant, sense, integer markers, several layouts); all numbers are symbolic reals carried through the text as tokens. z3 proves the imported '
    'instance equals the model: sense, objective incl. constant, one <=0 / =0 constraint per row with the right signs (two for ranged rows), per-column domain, names; and that each '
    'injected fault (undeclared row in COLUMNS/RHS/RANGES, unknown row/bound/marker/sense keyword, unparsable number) is reported as an error.',
    note='Lexing primitives (lines, split_whitespace, trim, f64::from_str) are modelled on concrete text, not executed; gzip and byte decoding outside; models larger than 2x2 (quick) / 3x3 (thorough) outside (property: 6x5); '
    'four defects found and repaired by fix: commits (FR ignored, objective constant only from row OBJ, UP 0 boundary, RHS for undeclared row), see known_findings.json.')
CLAIMED['C18'] = dict(design='2/C18', text='mps::to_mps::write_mps is executed from MIR into a text buffer (format templates decoded from the MIR constants), the text is split into lines '
    'and fed to the real parser and converter (C17 pipeline): for linear instances with 3 non-contiguous variable ids, every kind, bounds absent/finite/half-infinite/infinite/negative, '
    '0-2 constraints of either kind incl. constant-only, either sense and symbolic coefficients (explicit zeros as solver cases), linear functions stored in the linear, quadratic (no / zero entries) or polynomial (degree <= 1) arm, z3 proves same sense, same objective and constraint '
    'denotations and equality kinds under the same ids and the same effective domain for every used variable; repeated ids inside one function; nonlinear objective/constraint refused naming the offender.',
    note='f64 Display/FromStr round trip assumed (numbers travel as tokens); lexing modelled; two defects found and repaired by fix: commits (no bounds written for variables without bound; '
    'repeated ids written as duplicate COLUMNS entries).')
CLAIMED['C19'] = dict(design='2/C19', text='QplibFile::from_lines (FileCursor helpers and their closures, generic over the item types; type parameters are bound from the call sites), '
    'ProblemType/ObjSense/VarType::from_str, integer_to_binary, apply_infinity_threshold and qplib::convert::* are executed from MIR on files rendered by an independent writer for 9 (quick) / '
    'all 120 (thorough) problem-type codes with symbolic numbers: z3 proves objective = 1/2 x\'Q0x + b0\'x + q0 (symmetric Q from its lower triangle, default and non-default b0), sense, '
    'variable kinds/bounds/names (magnitudes at the infinity value = unbounded), one <=0 constraint per finite side with the right signs; malformed type/sense/variable-type codes, '
    'non-numbers, premature EOF and oversized counts are reported as errors.',
    note='Lexing modelled as in C17; 2 variables x 2 constraints, thorough tier also 4 x 3 for six codes (property: 5 x 4); one defect repaired by a fix: commit (diagonal of Q not halved); three panics on malformed index/value '
    'tokens are recorded as known findings and printed as KNOWN-FINDING.')
CLAIMED['C07'] = dict(design='2/C07', text='The prost-derive output of all 31 message types (encode_raw, merge_field, clear, Default, the oneof encode/merge and their closures) and of the 5 enum types '
    '(try_from, is_valid, as_str_name, from_str_name, typed getters/setters) is executed from the MIR of rust/ommx with prost::encoding::* modelled as emitting/consuming abstract wire records '
    '(field number, wire type, kind, payload). Against the grammar parsed independently from proto/ommx/v1/*.proto and with the scalar leaves of the message under test as solver variables '
    '(u64/i64 64-bit, enum numbers over all of i32, bool, real or infinite double), z3 proves per presence pattern: the emitted records are exactly what the schema prescribes (numbers, wire types, '
    'kinds, labels, oneof arms, map entries, proto3 default omission), decoding them gives back the message, two layouts of a foreign conforming encoding (reordered, unpacked/packed mix, explicit defaults, '
    'unknown fields of every wire type) decode to the same content with only unknown fields skipped, clear() and Default are the empty message, and enum numbers/names equal the schema tables.',
    note='Byte-level coding (varints, length prefixes, UTF-8) lives in the external prost/bytes crates and is trusted; the record model is compared byte-for-byte with prost on concrete messages of every type each run. '
    'Outside the claim: the Python bindings and the generators (not Rust code this engine executes), readability of old archives beyond schema equality, NaN/-0.0 payloads, encoded_len, full cross products of presence patterns.')
CLAIMED['C20'] = dict(design='2/C20', text='The OMMX layer of an artifact is executed from MIR: Builder::add_instance/add_solution/add_parametric_instance/add_sample_set, build, Artifact::get_layer and the four typed getters, '
    'get_instances, get_solutions, get_layer_descriptors, get_manifest and every annotation setter/getter of the four annotation types; encode_to_vec/decode run the real prost-derive output on abstract wire records (C07). '
    'ocipkg is replaced by its contract (descriptor+blob appended per add_layer, digest equal iff bytes equal, reopen = identity, manifest order). Layer digests and the requested digest are 64-bit solver variables: '
    'z3 proves for archives of 0..2 (quick) / 0..3 (thorough) layers of any kinds that a typed getter returns exactly a stored layer of that kind with that digest (message and annotations) and fails for every other digest or kind, also as the second of two typed getter calls on one handle, '
    'that listings are in insertion order under the published media types, that only the OMMX artifact type is accepted, and that every annotation getter returns the set value (counts over all of u64) under the published key and fails when unset.',
    note='The substrate (tar, SHA-256, OCI JSON, file system) is NOT verified: it is modelled by contract and the contract is compared with real archives written to disk and reopened on concrete cases each run; counterexamples are replayed on real archives. '
    'chrono RFC3339 and integer Display/FromStr round trips assumed; serde_json parameters/config outside; <=3 layers (property: 6). One defect repaired by a fix: commit (digest shared by layers of different kinds); '
    'set_authors([]) reading back as [""] is a recorded known finding.')
NOT_APPLICABLE = {
}
PENDING = 'not yet built in this revision: harness for this property is under construction (engine mirsym); no claim is made'
ALL = [f'C{i:02d}' for i in range(1, 21)]
checks = []
for pid, c in CLAIMED.items():
    checks.append({
        'property_id': pid,
        'quick_cmd': f'python3-vt run_check.py {pid} --tier quick',
        'thorough_cmd': f'python3-vt run_check.py {pid} --tier thorough',
        'evidence_file': f'/verif/evidence/{pid}.json',
        'replay_cmd_template': 'python3-vt replay_case.py {path}',
        'engine': c.get('engine', 'mirsym'),
        'level_claimed': {'category': 'model_checking', 'text': c['text'], 'design_ref': c['design']},
        'level_note': c['note'],
        'technique': c.get('technique', 'bounded symbolic execution of rustc MIR of the real crate + z3 (SMT), native replay of counterexamples'),
    })
na = []
for pid in ALL:
    if pid in CLAIMED:
        continue
    na.append({'property_id': pid, 'reason': NOT_APPLICABLE.get(pid, PENDING)})
m = {
    'version': 1,
    'setup_cmd': 'bash setup.sh',
    'hooks': {'guard': 'ommx_verif', 'enable': 'no source hooks are needed: the MIR dump sees private items, the replay binary and Kani harnesses use the public API',
              'baseline_off_cmd': 'cd /repo && cargo test --workspace --no-fail-fast --offline', 'source_commits': [], 'add_only': True},
    'engines': [
        {'name': 'mirsym', 'path': '/verif/mirsym', 'serves_properties': sorted(p for p, c in CLAIMED.items() if c.get('engine', 'mirsym') == 'mirsym'),
         'kind_free_text': 'python+z3 bounded symbolic executor of rustc -Zunpretty=mir of rust/ommx (regenerated from the working tree each run); std/anyhow library models; native replay gate'},
        {'name': 'kani', 'path': '/verif/kani', 'serves_properties': sorted(p for p, c in CLAIMED.items() if 'kani' in c.get('engine', '')),
         'kind_free_text': 'Kani 0.68 / CBMC harnesses over the compiled crate for scalar f64 kernels'},
    ],
    'checks': checks,
    'not_applicable': na,
    'notes': 'exit 0 = held within bounds; exit 1 + VIOLATION line = replayed counterexample; exit 2 = inconclusive (never a pass). See DESIGN.md.',
}
json.dump(m, open(os.path.join(HERE, 'MANIFEST.json'), 'w'), indent=1)
print('claimed', sorted(CLAIMED), 'n/a', len(na))
