#!/usr/bin/env python3-vt
"""usage: run_check.py <property id> [--tier quick|thorough] [--seed N]"""
import sys, os, importlib
sys.path.insert(0, os.path.dirname(os.path.abspath(__file__)))
pid = sys.argv[1]
sys.argv = [sys.argv[0]] + sys.argv[2:]
mod = importlib.import_module('checks.' + pid.lower())
from checks.common import main
main(pid, mod.build)
