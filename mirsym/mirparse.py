"""Parser for rustc's `-Zunpretty=mir` text dump (the subset emitted for ommx).

Bodies are parsed lazily: the dump is first split into items by header; statements of a body are
parsed the first time the body is executed.
"""
import re, hashlib

# ----------------------------------------------------------------------------- text helpers

OPEN = '([{'
CLOSE = ')]}'


def split_top(s, sep=',', angle=True):
    """Split at top-level `sep`, aware of brackets, `<...>` (types), string and char literals."""
    out, cur = [], []
    depth = 0
    i, n = 0, len(s)
    while i < n:
        ch = s[i]
        if ch == '"':
            j = i + 1
            while j < n:
                if s[j] == '\\':
                    j += 2
                    continue
                if s[j] == '"':
                    break
                j += 1
            cur.append(s[i:j + 1]); i = j + 1
            continue
        if ch == "'" and i + 2 < n:
            # char literal 'x' or '\n' (lifetimes like 'a / '_ are not followed by a closing quote)
            if s[i + 1] == '\\':
                j = s.find("'", i + 2)
                if j != -1 and j - i <= 12:
                    cur.append(s[i:j + 1]); i = j + 1
                    continue
            elif s[i + 2] == "'":
                cur.append(s[i:i + 3]); i += 3
                continue
        if ch in OPEN:
            depth += 1
        elif ch in CLOSE:
            depth -= 1
        elif angle and ch == '<':
            depth += 1
        elif angle and ch == '>':
            if i > 0 and s[i - 1] in '-=':
                pass
            else:
                depth -= 1
        if depth == 0 and s.startswith(sep, i):
            out.append(''.join(cur).strip()); cur = []
            i += len(sep)
            continue
        cur.append(ch)
        i += 1
    last = ''.join(cur).strip()
    if last or out:
        out.append(last)
    if out and out[-1] == '':
        out.pop()
    return out


def find_top(s, sub, start=0, angle=False):
    """Index of first top-level occurrence of `sub` (brackets and strings respected) or -1."""
    depth = 0
    i, n = start, len(s)
    while i < n:
        ch = s[i]
        if ch == '"':
            j = i + 1
            while j < n:
                if s[j] == '\\':
                    j += 2
                    continue
                if s[j] == '"':
                    break
                j += 1
            i = j + 1
            continue
        if depth == 0 and s.startswith(sub, i):
            return i
        if ch in OPEN:
            depth += 1
        elif ch in CLOSE:
            depth -= 1
        elif angle and ch == '<':
            depth += 1
        elif angle and ch == '>' and not (i > 0 and s[i - 1] in '-='):
            depth -= 1
        i += 1
    return -1


def matching_close(s, i):
    """s[i] is an opening bracket; return index of its matching close (strings respected)."""
    depth = 0
    n = len(s)
    while i < n:
        ch = s[i]
        if ch == '"':
            j = i + 1
            while j < n:
                if s[j] == '\\':
                    j += 2
                    continue
                if s[j] == '"':
                    break
                j += 1
            i = j + 1
            continue
        if ch in OPEN:
            depth += 1
        elif ch in CLOSE:
            depth -= 1
            if depth == 0:
                return i
        i += 1
    raise ValueError('unbalanced: ' + s)


# ----------------------------------------------------------------------------- places / operands

class ParseError(Exception):
    pass


_local_re = re.compile(r'_(\d+)$')


def parse_place(s):
    """-> (local:int, projections:tuple). projections: ('deref',), ('field', idx, ty), ('downcast', name),
    ('index', local), ('cindex', i, from_end)"""
    s = s.strip()
    m = _local_re.match(s)
    if m:
        return (int(m.group(1)), ())
    if s.endswith(']'):
        # find the matching '[' of the final index
        depth = 0
        for k in range(len(s) - 1, -1, -1):
            if s[k] == ']':
                depth += 1
            elif s[k] == '[':
                depth -= 1
                if depth == 0:
                    break
        base = parse_place(s[:k])
        idx = s[k + 1:-1].strip()
        m = _local_re.match(idx)
        if m:
            return (base[0], base[1] + (('index', int(m.group(1))),))
        m = re.match(r'(-?)(\d+) of (\d+)$', idx)
        if m:
            return (base[0], base[1] + (('cindex', int(m.group(2)), m.group(1) == '-'),))
        m = re.match(r'(\d+):(-?)(\d*)$', idx)
        if m:
            return (base[0], base[1] + (('subslice', int(m.group(1)), int(m.group(3) or 0), m.group(2) == '-'),))
        raise ParseError('index? ' + s)
    if s.startswith('(') and matching_close(s, 0) == len(s) - 1:
        inner = s[1:-1].strip()
        if inner.startswith('*'):
            b = parse_place(inner[1:])
            return (b[0], b[1] + (('deref',),))
        k = find_top(inner, ': ')
        if k != -1:
            left, ty = inner[:k], inner[k + 2:]
            d = left.rindex('.')
            b = parse_place(left[:d])
            return (b[0], b[1] + (('field', int(left[d + 1:]), ty.strip()),))
        k = find_top(inner, ' as ')
        if k != -1:
            b = parse_place(inner[:k])
            return (b[0], b[1] + (('downcast', inner[k + 4:].strip()),))
        # plain parenthesised place
        return parse_place(inner)
    raise ParseError('place? ' + s)


def parse_operand(s):
    s = s.strip()
    if s.startswith('copy '):
        return ('copy', parse_place(s[5:]))
    if s.startswith('move '):
        return ('move', parse_place(s[5:]))
    if s.startswith('no_retag '):
        return parse_operand(s[9:])
    if s.startswith('const '):
        return ('const', s[6:].strip())
    if re.match(r'[<A-Za-z_]', s):
        return ('fnitem', s)
    raise ParseError('operand? ' + s)


BINOPS = {'Add', 'Sub', 'Mul', 'Div', 'Rem', 'BitXor', 'BitAnd', 'BitOr', 'Shl', 'Shr', 'Eq', 'Lt', 'Le', 'Ne',
          'Ge', 'Gt', 'Cmp', 'Offset', 'AddWithOverflow', 'SubWithOverflow', 'MulWithOverflow',
          'AddUnchecked', 'SubUnchecked', 'MulUnchecked', 'ShlUnchecked', 'ShrUnchecked'}
UNOPS = {'Not', 'Neg', 'PtrMetadata'}


def parse_rvalue(s):
    s = s.strip()
    if s.startswith('&raw '):
        rest = s[5:]
        mut = rest.startswith('mut ')
        rest = rest[4:] if mut else rest[6:]  # 'const '
        if rest.startswith('(fake) '):
            rest = rest[7:]                   # fake raw borrow emitted for slice-pattern / index bounds checks
        return ('ref', mut, parse_place(rest))
    if s.startswith('&'):
        rest = s[1:]
        mut = False
        if rest.startswith('mut '):
            mut, rest = True, rest[4:]
        elif rest.startswith('fake '):
            rest = rest.split(' ', 2)[-1] if rest.startswith('fake shallow ') else rest[5:]
        elif rest.startswith("'"):
            rest = rest.split(' ', 1)[1]
        return ('ref', mut, parse_place(rest))
    m = re.match(r'([A-Za-z]+)\(', s)
    if m and s.endswith(')') and matching_close(s, m.end() - 1) == len(s) - 1:
        name = m.group(1)
        inner = s[m.end():-1]
        if name in BINOPS:
            a, b = split_top(inner)
            return ('binop', name, parse_operand(a), parse_operand(b))
        if name in UNOPS:
            return ('unop', name, parse_operand(inner))
        if name == 'discriminant':
            return ('discr', parse_place(inner))
        if name == 'Len':
            return ('len', parse_place(inner))
        if name == 'ShallowInitBox':
            a = split_top(inner)
            return ('use', parse_operand(a[0]))
        if name == 'CopyForDeref':
            return ('use', ('copy', parse_place(inner)))
    if s.startswith(('copy ', 'move ', 'const ', 'no_retag ')):
        k = find_top(s, ' as ', angle=False)
        # `const "x" as ..` is not a thing; casts look like `move _3 as usize (IntToInt)`
        if k != -1 and s.endswith(')') and not s.startswith('const "'):
            head, tail = s[:k], s[k + 4:]
            # the cast kind is the last balanced parenthesised group: `(IntToInt)`, `(PointerCoercion(Unsize, Implicit))`,
            # `(PointerCoercion(ClosureFnPointer(Safe), Implicit))`
            depth, p = 0, len(tail) - 1
            while p >= 0:
                if tail[p] == ')':
                    depth += 1
                elif tail[p] == '(':
                    depth -= 1
                    if depth == 0:
                        break
                p -= 1
            return ('cast', parse_operand(head), tail[:p].strip(), tail[p + 1:-1])
        return ('use', parse_operand(s))
    if s.startswith('['):
        inner = s[1:-1]
        k = find_top(inner, '; ')
        if k != -1:
            return ('repeat', parse_operand(inner[:k]), inner[k + 2:].strip())
        return ('array', [parse_operand(x) for x in split_top(inner)])
    if s.startswith('(') and matching_close(s, 0) == len(s) - 1:
        inner = s[1:-1].strip()
        if inner == '':
            return ('tuple', [])
        parts = split_top(inner)
        return ('tuple', [parse_operand(x) for x in parts])
    if s.startswith('{closure@') or s.startswith('{coroutine@'):
        k = s.index('}')
        name = s[:k + 1]
        rest = s[k + 1:].strip()
        caps = []
        if rest.startswith('{'):
            for part in split_top(rest[1:-1].strip()):
                nm, op = part.split(': ', 1)
                caps.append(parse_operand(op))
        return ('closure', name, caps)
    if s.startswith('discriminant('):
        return ('discr', parse_place(s[13:-1]))
    # ADT aggregate: Path { f: op, .. } | Path(op, ..) | Path
    if s.endswith('}'):
        k = find_top(s, ' {', angle=True)
        if k != -1:
            path = s[:k].strip()
            inner = s[k + 2:-1].strip()
            ops = []
            names = []
            for part in split_top(inner):
                nm, op = part.split(': ', 1)
                names.append(nm.strip())
                ops.append(parse_operand(op))
            return ('adt', path, ops, names)
    if s.endswith(')'):
        # find the '(' opening the final group
        depth = 0
        for k in range(len(s) - 1, -1, -1):
            if s[k] == ')':
                depth += 1
            elif s[k] == '(':
                depth -= 1
                if depth == 0:
                    break
        path = s[:k].strip()
        ops = [parse_operand(x) for x in split_top(s[k + 1:-1])]
        return ('adt', path, ops, None)
    if re.match(r'[\w:<>\', &\[\]()]+$', s):
        return ('adt', s, [], None)
    raise ParseError('rvalue? ' + s)


# ----------------------------------------------------------------------------- terminators

_target_re = re.compile(r'bb(\d+)')
_calltail_re = re.compile(r' -> (\[return: bb\d+, unwind[^\]]*\]|unwind [a-z]+(?: bb\d+)?|bb\d+)$')


def parse_statement(s):
    """Returns ('assign', place, rvalue) | ('nop',) | terminator tuples."""
    if s.startswith(('StorageLive', 'StorageDead', 'nop', 'FakeRead', 'PlaceMention', 'Retag', 'AscribeUserType',
                     'Coverage', 'ConstEvalCounter', 'BackwardIncompatibleDropHint')):
        return ('nop',)
    if s == 'return':
        return ('return',)
    if s == 'unreachable':
        return ('unreachable',)
    if s.startswith('resume') or s.startswith('terminate') or s.startswith('abort'):
        return ('resume',)
    m = re.match(r'goto -> bb(\d+)$', s)
    if m:
        return ('goto', int(m.group(1)))
    if s.startswith('switchInt('):
        c = matching_close(s, 9)
        op = parse_operand(s[10:c])
        arms = s[s.index('[', c) + 1: s.rindex(']')]
        table, other = {}, None
        for arm in arms.split(', '):
            k, t = arm.split(': ')
            t = int(t[2:])
            if k == 'otherwise':
                other = t
            else:
                table[int(k)] = t
        return ('switch', op, table, other)
    if s.startswith('drop('):
        c = matching_close(s, 4)
        m = re.search(r'return: bb(\d+)', s[c:])
        return ('drop', parse_place(s[5:c]), int(m.group(1)))
    if s.startswith('assert('):
        c = matching_close(s, 6)
        parts = split_top(s[7:c])
        cond = parts[0]
        expected = True
        if cond.startswith('!'):
            expected = False
            cond = cond[1:]
        m = re.search(r'success: bb(\d+)', s[c:])
        return ('assert', parse_operand(cond), expected, parts[1] if len(parts) > 1 else '', int(m.group(1)))
    if s.startswith('falseEdge') or s.startswith('falseUnwind'):
        m = re.search(r'bb(\d+)', s)
        return ('goto', int(m.group(1)))
    # assignment or call
    k = find_top(s, ' = ')
    if k == -1:
        # call without destination?  e.g.  `_0 = ...` always has one; diverging calls: `_5 = f() -> unwind ..`
        raise ParseError('stmt? ' + s)
    lhs, rhs = s[:k], s[k + 3:]
    mt = _calltail_re.search(rhs)
    if mt:
        a = mt.start()
        callpart, tail = rhs[:a], rhs[a + 4:]
        m = re.search(r'return: bb(\d+)', tail)
        ret = int(m.group(1)) if m else None
        if not m:
            m2 = re.match(r'bb(\d+)', tail)
            ret = int(m2.group(1)) if m2 else None
        # callee(args): find the last top-level paren group
        assert callpart.endswith(')'), callpart
        depth = 0
        for p in range(len(callpart) - 1, -1, -1):
            ch = callpart[p]
            if ch == ')':
                depth += 1
            elif ch == '(':
                depth -= 1
                if depth == 0:
                    break
        # the scan above is not string aware; redo with string awareness if a quote is present
        if '"' in callpart:
            p = _last_group_start(callpart)
        callee = callpart[:p].strip()
        args = [parse_operand(x) for x in split_top(callpart[p + 1:-1], angle=True)]
        return ('call', parse_place(lhs), callee, args, ret)
    return ('assign', parse_place(lhs), parse_rvalue(rhs))


def _last_group_start(s):
    """index of the '(' that opens the last top-level (...) group, string aware."""
    i, n = 0, len(s)
    depth = 0
    start = None
    while i < n:
        ch = s[i]
        if ch == '"':
            j = i + 1
            while j < n:
                if s[j] == '\\':
                    j += 2
                    continue
                if s[j] == '"':
                    break
                j += 1
            i = j + 1
            continue
        if ch == '(':
            if depth == 0:
                start = i
            depth += 1
        elif ch == ')':
            depth -= 1
        elif ch in '[{':
            depth += 1
        elif ch in ']}':
            depth -= 1
        i += 1
    return start


# ----------------------------------------------------------------------------- bodies

class Body:
    __slots__ = ('name', 'header', 'text', 'params', 'param_tys', 'ret_ty', 'local_tys', 'blocks', '_parsed',
                 'sha', 'kind', 'span', 'const_value', 'debug')

    def __init__(self, name, header, text, kind):
        self.name, self.header, self.text, self.kind = name, header, text, kind
        self._parsed = False
        self.blocks = None
        self.sha = hashlib.sha256(text.encode()).hexdigest()[:16]
        self.span = None
        m = re.search(r'<impl at ([^:>]+):(\d+):(\d+): (\d+):(\d+)>', name)
        if m:
            self.span = (m.group(1), int(m.group(2)), int(m.group(3)), int(m.group(4)), int(m.group(5)))
        self.params, self.param_tys, self.ret_ty = [], [], None
        self.const_value = None
        if kind == 'fn':
            p = header.index('(', len('fn ') + len(name))
            c = matching_close(header, p)
            for part in split_top(header[p + 1:c]):
                nm, ty = part.split(': ', 1)
                self.params.append(int(nm.strip().replace('mut ', '')[1:]))
                self.param_tys.append(ty.strip())
            rest = header[c + 1:].strip()
            if rest.startswith('->'):
                self.ret_ty = rest[2:].rstrip('{').strip()
            else:
                self.ret_ty = '()'

    def parse(self):
        if self._parsed:
            return
        self.local_tys = {}
        self.blocks = {}
        self.debug = {}
        cur = None
        pending = None
        for line in self.text.split('\n')[1:]:
            s = line.strip()
            if not s:
                continue
            if cur is None:
                m = re.match(r'let (mut )?_(\d+): (.*);$', s)
                if m:
                    self.local_tys[int(m.group(2))] = m.group(3)
                    continue
                m = re.match(r'debug (\S+) => (.*);$', s)
                if m:
                    self.debug[m.group(1)] = m.group(2)
                    continue
            m = re.match(r'bb(\d+)( \(cleanup\))?: \{$', s)
            if m:
                cur = int(m.group(1))
                self.blocks[cur] = []
                continue
            if s == '}':
                cur = None if cur is not None else None
                continue
            if cur is None:
                continue
            if pending is not None:
                s = pending + ' ' + s
                pending = None
            if not s.endswith(';'):
                pending = s
                continue
            self.blocks[cur].append(s[:-1])
        for p, t in zip(self.params, self.param_tys):
            self.local_tys[p] = t
        self._parsed = True


class Mir:
    def __init__(self, text):
        self.bodies = {}          # name -> [Body] (names are not unique: macro impls)
        self.by_method = {}       # last segment -> [Body]
        self.consts = {}          # name -> Body (const / promoted / static)
        self._split(text)
        self._stmt_cache = {}

    def _split(self, text):
        # items start at column 0 with 'fn ', 'const ', 'static ', 'promoted'
        starts = [m.start() for m in re.finditer(r'^(?:fn |const |static |static mut )', text, re.M)]
        starts.append(len(text))
        for a, b in zip(starts, starts[1:]):
            item = text[a:b].rstrip()
            header = item.split('\n', 1)[0]
            if header.startswith('fn '):
                # name ends at the '(' that starts the parameter list: the first top-level '(' not inside <>
                name = self._fn_name(header)
                body = Body(name, header, item, 'fn')
                self.bodies.setdefault(name, []).append(body)
                last = split_top(name, '::')[-1]
                self.by_method.setdefault(last, []).append(body)
            else:
                m0 = re.match(r'(?:const|static mut|static) ', header)
                if not m0 or ' = ' not in header:
                    continue
                k = header.rindex(' = ')
                left, rhs = header[m0.end():k], header[k + 3:].strip()
                if ': ' not in left:
                    continue
                name, cty = left.rsplit(': ', 1)
                body = Body(name, header, item, 'const')
                body.ret_ty = cty
                if rhs != '{':
                    body.const_value = rhs.rstrip(';')
                self.consts[name] = body

    @staticmethod
    def _fn_name(header):
        s = header[3:]
        depth = 0
        i = 0
        while i < len(s):
            ch = s[i]
            if ch == '<' or ch == '{':
                depth += 1
            elif ch == '>' and not (i > 0 and s[i - 1] in '-='):
                depth -= 1
            elif ch == '}':
                depth -= 1
            elif ch == '(' and depth == 0:
                return s[:i]
            i += 1
        raise ParseError('fn name? ' + header)

    def parsed_block(self, body, bb):
        key = (id(body), bb)
        r = self._stmt_cache.get(key)
        if r is None:
            body.parse()
            r = [parse_statement(s) for s in body.blocks[bb]]
            self._stmt_cache[key] = r
        return r


def load(path):
    with open(path) as f:
        return Mir(f.read())


if __name__ == '__main__':
    import sys, time
    t = time.time()
    mir = load(sys.argv[1])
    print(len(mir.bodies), 'fn names', len(mir.consts), 'consts', time.time() - t)
    bad = 0
    n = 0
    for name, bs in mir.bodies.items():
        for b in bs:
            b.parse()
            for bb in b.blocks:
                for s in b.blocks[bb]:
                    n += 1
                    try:
                        parse_statement(s)
                    except Exception as e:
                        bad += 1
                        if bad < 40:
                            print('ERR', type(e).__name__, e, '|', s[:200])
    print('statements', n, 'bad', bad, time.time() - t)
