"""Runtime values of the MIR interpreter and the f64 "R-model"."""
from fractions import Fraction
import z3

# ----------------------------------------------------------------------------- errors / outcomes


class RustPanic(Exception):
    """The interpreted code panicked (assert terminator, unwrap on None/Err, index out of bounds, ...)."""


class Inconclusive(Exception):
    """The interpreter cannot decide (unmodelled callee, unsupported construct, solver unknown)."""


class BudgetExceeded(Exception):
    """No return within the step budget (treated as 'does not terminate' by harnesses that care)."""


class Unsupported(Inconclusive):
    pass


# ----------------------------------------------------------------------------- aggregates

class Agg:
    """struct / tuple / array / closure-capture record"""
    __slots__ = ('f', 'ty')

    def __init__(self, f, ty=None):
        self.f = f
        self.ty = ty

    def __repr__(self):
        return f'{self.ty or ""}{self.f}'


class Enum:
    __slots__ = ('ty', 'discr', 'vname', 'f')

    def __init__(self, ty, discr, vname, f):
        self.ty, self.discr, self.vname, self.f = ty, discr, vname, f

    def __repr__(self):
        return f'{self.ty}::{self.vname}{self.f if self.f else ""}'


def Some(v):
    return Enum('Option', 1, 'Some', [v])


def NONE():
    return Enum('Option', 0, 'None', [])


def Ok(v):
    return Enum('Result', 0, 'Ok', [v])


def Err(v):
    return Enum('Result', 1, 'Err', [v])


UNIT = Agg([], '()')


class Ref:
    """pointer to obj[key]; obj is a list"""
    __slots__ = ('obj', 'key', 'meta')

    def __init__(self, obj, key, meta=None):
        self.obj, self.key, self.meta = obj, key, meta

    def get(self):
        return self.obj[self.key]

    def set(self, v):
        self.obj[self.key] = v

    def __repr__(self):
        return f'&{self.obj[self.key]!r}'


def ref_to(v):
    return Ref([v], 0)


class Uninit:
    def __repr__(self):
        return '<uninit>'


UNINIT = Uninit()


class RVec:
    __slots__ = ('items',)

    def __init__(self, items=None):
        self.items = items if items is not None else []

    def __repr__(self):
        return f'vec{self.items}'


class Blob(RVec):
    """bytes of an encoded message, kept as abstract wire records"""
    __slots__ = ('records',)

    def __init__(self, records):
        self.items = []
        self.records = records


class SliceView:
    """&[T] / &str-of-tokens into an RVec"""
    __slots__ = ('vec', 'lo', 'hi')

    def __init__(self, vec, lo, hi):
        self.vec, self.lo, self.hi = vec, lo, hi

    @property
    def items(self):
        return self.vec.items[self.lo:self.hi]


class RMap:
    """HashMap/BTreeMap/HashSet/BTreeSet as an association list. entries: list of [key, value]"""
    __slots__ = ('kind', 'entries', 'is_set')

    def __init__(self, kind, is_set=False, entries=None):
        self.kind, self.is_set = kind, is_set
        self.entries = entries if entries is not None else []

    def __repr__(self):
        return f'{self.kind}{"set" if self.is_set else "map"}{self.entries}'


class RString:
    """String (owned, mutable). s: python str"""
    __slots__ = ('s',)

    def __init__(self, s=''):
        self.s = s

    def __repr__(self):
        return f'String({self.s!r})'


class SymString(RString):
    """a string known only up to identity: equal iff the 64-bit code is equal (content-addressed digests)"""
    __slots__ = ('bv',)

    def __init__(self, s, bv):
        self.s, self.bv = s, bv

    def __repr__(self):
        return f'SymString({self.s!r})'


class Closure:
    __slots__ = ('name', 'caps', 'env', 'body')

    def __init__(self, name, caps, env=None, body=None):
        self.name, self.caps, self.env, self.body = name, caps, env, body

    def __repr__(self):
        return f'{self.name}'


class FnItem:
    __slots__ = ('path',)

    def __init__(self, path):
        self.path = path

    def __repr__(self):
        return f'fn {self.path}'


class Opaque:
    """value whose content is irrelevant (fmt::Arguments, anyhow::Error payloads, ...)"""
    __slots__ = ('what', 'data')

    def __init__(self, what, data=None):
        self.what, self.data = what, data

    def __repr__(self):
        return f'<{self.what}>'


class RIter:
    """Iterator value backed by a python callable next() -> value or StopIteration sentinel"""
    __slots__ = ('nxt', 'back', 'hint', 'kind')

    def __init__(self, nxt, back=None, hint=None, kind='iter'):
        self.nxt, self.back, self.hint, self.kind = nxt, back, hint, kind


class _Done:
    pass


DONE = _Done()

# ----------------------------------------------------------------------------- f64: R-model


class FV:
    """f64 in the R-model: tag in {'fin','pinf','ninf','nan'}, r: Fraction | z3 Real (only for 'fin')"""
    __slots__ = ('tag', 'r')

    def __init__(self, tag, r=None):
        self.tag, self.r = tag, r

    def __repr__(self):
        return f'{self.r}' if self.tag == 'fin' else self.tag

    @property
    def concrete(self):
        return self.tag != 'fin' or isinstance(self.r, Fraction)


def fin(x):
    if isinstance(x, (int, float)):
        x = Fraction(x)
    return FV('fin', x)


PINF, NINF, NAN = FV('pinf'), FV('ninf'), FV('nan')
ZERO, ONE = fin(0), fin(1)


def f64_const(text):
    """exact rational value of a binary64 literal as rustc prints it (e.g. 1.0E-6, -1, 2.220446049250313E-16)"""
    t = text.replace('_', '')
    if t in ('inf', '+inf'):
        return PINF
    if t == '-inf':
        return NINF
    if t.lower() == 'nan':
        return NAN
    v = float(t)
    if v != v:
        return NAN
    if v == float('inf'):
        return PINF
    if v == float('-inf'):
        return NINF
    return FV('fin', Fraction(v))


def z3real(x):
    if isinstance(x, Fraction):
        return z3.Q(x.numerator, x.denominator)
    if isinstance(x, int):
        return z3.RealVal(x)
    return x


def is_conc(x):
    return isinstance(x, (Fraction, int, bool))


def r_add(a, b):
    if is_conc(a) and is_conc(b):
        return a + b
    if is_conc(a) and a == 0:
        return b
    if is_conc(b) and b == 0:
        return a
    return z3real(a) + z3real(b)


def r_sub(a, b):
    if is_conc(a) and is_conc(b):
        return a - b
    if is_conc(b) and b == 0:
        return a
    return z3real(a) - z3real(b)


def r_mul(a, b):
    if is_conc(a) and is_conc(b):
        return a * b
    if is_conc(a):
        if a == 0:
            return Fraction(0)
        if a == 1:
            return b
    if is_conc(b):
        if b == 0:
            return Fraction(0)
        if b == 1:
            return a
    return z3real(a) * z3real(b)


def r_div(a, b):
    if is_conc(a) and is_conc(b):
        return Fraction(a) / Fraction(b)
    if is_conc(b) and b == 1:
        return a
    return z3real(a) / z3real(b)


def r_neg(a):
    if is_conc(a):
        return -a
    return -a


def r_cmp(op, a, b):
    """op in lt le gt ge eq ne -> bool | z3 Bool"""
    if is_conc(a) and is_conc(b):
        return {'lt': a < b, 'le': a <= b, 'gt': a > b, 'ge': a >= b, 'eq': a == b, 'ne': a != b}[op]
    a, b = z3real(a), z3real(b)
    return {'lt': a < b, 'le': a <= b, 'gt': a > b, 'ge': a >= b, 'eq': a == b, 'ne': a != b}[op]


# boolean helpers that keep python bools when possible

def b_not(a):
    if isinstance(a, bool):
        return not a
    return z3.Not(a)


def b_and(*xs):
    ys = []
    for x in xs:
        if isinstance(x, bool):
            if not x:
                return False
        else:
            ys.append(x)
    if not ys:
        return True
    return ys[0] if len(ys) == 1 else z3.And(*ys)


def b_or(*xs):
    ys = []
    for x in xs:
        if isinstance(x, bool):
            if x:
                return True
        else:
            ys.append(x)
    if not ys:
        return False
    return ys[0] if len(ys) == 1 else z3.Or(*ys)


def z3bool(x):
    return z3.BoolVal(x) if isinstance(x, bool) else x
