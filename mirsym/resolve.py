"""Resolution of MIR callee strings to local bodies or library-model keys."""
import re, os
from .mirparse import split_top
from .values import *
from .interp import norm_ty, strip_ref, ty_head, generic_args

OP_TRAITS = {'Add', 'Sub', 'Mul', 'Div', 'Rem', 'AddAssign', 'SubAssign', 'MulAssign', 'DivAssign', 'PartialEq',
             'PartialOrd', 'AbsDiffEq'}


def match_angle(s, i):
    """s[i] == '<' ; index of matching '>'"""
    d = 0
    n = len(s)
    while i < n:
        ch = s[i]
        if ch == '<':
            d += 1
        elif ch == '>' and not (i > 0 and s[i - 1] in '-='):
            d -= 1
            if d == 0:
                return i
        i += 1
    raise ValueError('unbalanced <> in ' + s)


def find_as(inner):
    """top-level ' as ' inside <...>"""
    d = 0
    i = 0
    while i < len(inner):
        ch = inner[i]
        if ch in '<([{':
            d += 1
        elif ch in ')]}':
            d -= 1
        elif ch == '>' and not (i > 0 and inner[i - 1] in '-='):
            d -= 1
        elif d == 0 and inner.startswith(' as ', i):
            return i
        i += 1
    return -1


class Callee:
    __slots__ = ('kind', 'self_ty', 'trait', 'trait_head', 'trait_args', 'method', 'segs', 'impl_ty', 'raw')


_parse_cache = {}


def parse_callee(s):
    c = _parse_cache.get(s)
    if c is not None:
        return c
    c = Callee()
    c.raw = s
    t = s.strip()
    c.impl_ty = None
    if t.startswith('<') and (not t.startswith('<impl ') or find_as(t[1:match_angle(t, 0)]) != -1):
        e = match_angle(t, 0)
        inner, rest = t[1:e], t[e + 1:]
        k = find_as(inner)
        segs = [x for x in split_top(rest, '::') if x]
        meth = [x for x in segs if not x.startswith('<')]
        c.method = meth[-1] if meth else ''
        if k != -1:
            c.kind = 'trait'
            c.self_ty = norm_ty(inner[:k])
            c.trait = norm_ty(inner[k + 4:])
            c.trait_head = ty_head(c.trait)
            c.trait_args = [norm_ty(a) for a in generic_args(c.trait)] if c.trait.endswith('>') else []
        else:
            c.kind = 'qself'
            c.self_ty = norm_ty(inner)
            c.trait = c.trait_head = None
            c.trait_args = []
        c.segs = meth
    else:
        c.kind = 'path'
        parts = split_top(t, '::')
        segs = []
        for p in parts:
            if p.startswith('<impl ') and not (segs and segs[-1][:1].isupper()):
                c.impl_ty = norm_ty(p[6:-1])
                segs.append('<impl>')
            elif p.startswith('<'):
                continue
            else:
                segs.append(p)
        c.segs = segs
        c.method = segs[-1]
        c.self_ty = c.trait = c.trait_head = None
        c.trait_args = []
    _parse_cache[s] = c
    return c


def span_text(interp, body):
    sp = body.span
    if sp is None:
        return None
    key = sp
    r = interp._span_cache.get(key)
    if r is not None:
        return r
    path = os.path.join(interp.srcroot, sp[0])
    try:
        lines = interp._span_cache.get(('file', path))
        if lines is None:
            lines = open(path).read().split('\n')
            interp._span_cache[('file', path)] = lines
        if sp[1] == sp[3]:
            txt = lines[sp[1] - 1][sp[2] - 1: sp[4] - 1]
        else:
            txt = lines[sp[1] - 1][sp[2] - 1:] + ' ' + ' '.join(lines[sp[1]:sp[3] - 1]) + ' ' + lines[sp[3] - 1][:sp[4] - 1]
    except Exception:
        txt = ''
    txt = ' '.join(txt.split())
    interp._span_cache[key] = txt
    return txt


def impl_header(txt):
    """parse 'impl<..> Trait<..> for Self' -> (trait or None, self)   (None if not an impl header)"""
    if not txt.startswith('impl'):
        return None
    t = txt[4:].strip()
    if t.startswith('<'):
        t = t[match_angle(t, 0) + 1:].strip()
    # split at top-level ' for '
    d = 0
    i = 0
    while i < len(t):
        ch = t[i]
        if ch in '<([':
            d += 1
        elif ch in ')]':
            d -= 1
        elif ch == '>' and not (i > 0 and t[i - 1] in '-='):
            d -= 1
        elif d == 0 and t.startswith(' for ', i):
            return (t[:i].strip(), t[i + 5:].strip())
        i += 1
    return (None, t)


DERIVE_TRAITS = {
    'Clone': {'Clone'}, 'PartialEq': {'PartialEq'}, 'Eq': {'Eq'}, 'Debug': {'Debug'}, 'Default': {'Default'},
    'Hash': {'Hash'}, 'PartialOrd': {'PartialOrd'}, 'Ord': {'Ord'}, 'Copy': {'Copy'},
}


def is_derived(interp, body):
    txt = span_text(interp, body)
    return txt is not None and not txt.startswith('impl')


def local_trait_candidates(interp, c, self_ty, nargs):
    """bodies implementing trait method c.method for self_ty"""
    out = []
    S = norm_ty(self_ty)
    S0 = strip_ref(S)
    for b in interp.mir.by_method.get(c.method, []):
        if b.span is None or len(b.params) != nargs:
            continue
        txt = span_text(interp, b)
        hdr = impl_header(txt) if txt else None
        if hdr is not None and '$' not in txt:
            tr, _ = hdr
            if tr is None:
                continue  # inherent impl
            if ty_head(tr) != c.trait_head:
                continue
        elif txt and '$' not in txt:
            # derive attribute or other macro invocation: trait must be compatible with the derive name
            dn = txt.split('::')[-1]
            if dn in DERIVE_TRAITS and c.trait_head not in DERIVE_TRAITS[dn]:
                continue
        ptys = [norm_ty(p) for p in b.param_tys]
        ret = norm_ty(b.ret_ty)
        score = 0
        if ptys:
            if ptys[0] == S:
                score = 3
            elif strip_ref(ptys[0]) == S0 and not S.startswith('&'):
                score = 2
        if score == 0:
            if hdr is not None and '$' not in txt:
                if hdr[0] is not None and ty_head(hdr[1]) == ty_head(S) and hdr[1].startswith('&') == S.startswith('&') \
                        and (ret == S or S in [norm_ty(a) for a in generic_args(ret)] or not ptys or c.trait_head in ('AbsDiffEq',)):
                    score = 1
            elif ret == S or (ty_head(ret) in ('Result', 'Option') and generic_args(ret) and norm_ty(generic_args(ret)[0]) == S):
                score = 1
        if score == 0:
            continue
        # trait generic arguments
        if c.trait_args:
            a0 = c.trait_args[0]
            if c.trait_head in OP_TRAITS and len(ptys) >= 2:
                if strip_ref(ptys[1]) != strip_ref(a0) or ptys[1].startswith('&') != a0.startswith('&'):
                    # PartialEq<R>::eq takes &R
                    if not (c.trait_head in ('PartialEq', 'PartialOrd', 'AbsDiffEq') and strip_ref(ptys[1]) == strip_ref(a0)):
                        continue
            elif c.trait_head in ('From', 'TryFrom') and len(ptys) == 1:
                if ptys[0] != a0:
                    continue
            elif c.trait_head in ('FromIterator', 'Sum', 'Extend') and hdr is not None and hdr[0] and '$' not in txt:
                src_args = [norm_ty(a) for a in generic_args(norm_ty(hdr[0]))]
                if src_args and not _same_modulo_paths(src_args[0], a0):
                    continue
        elif c.trait_head in OP_TRAITS and len(ptys) >= 2:
            if strip_ref(ptys[1]) != S0:
                continue
        out.append((score, b))
    if not out:
        return []
    best = max(s for s, _ in out)
    cands = [b for s, b in out if s == best]
    if len(cands) > 1:
        exact = [b for b in cands if norm_ty(b.ret_ty) == S or (b.param_tys and norm_ty(b.param_tys[0]) == S)]
        if exact:
            cands = exact
    return cands


def _last_segs(t):
    return re.sub(r'(?:[A-Za-z_]\w*::)+', '', t)


def _same_modulo_paths(a, b):
    return _last_segs(a).replace(' ', '') == _last_segs(b).replace(' ', '')


def runtime_ty(v):
    while isinstance(v, Ref):
        v = v.get()
    if isinstance(v, (Agg, Enum)):
        return v.ty
    return None


def is_type_param(t):
    t = strip_ref(t)
    return bool(re.match(r'^[A-Z][A-Za-z0-9]*$', t)) and len(t) <= 3 or t.startswith('impl ') or t == 'Self'


def resolve_callee(interp, callee, argv, caller):
    c = parse_callee(callee)
    key = None
    if c.kind == 'trait':
        S = c.self_ty
        dyn = False
        if S == 'Self' and interp.self_stack:
            S = interp.self_stack[-1]
        elif is_type_param(S) and argv:
            rt = runtime_ty(argv[0])
            if rt:
                S = rt
                dyn = True
        ck = (callee, S, len(argv))
        r = interp._resolve_cache.get(ck)
        if r is not None:
            return r
        cands = local_trait_candidates(interp, c, S, len(argv))
        if len(cands) > 1:
            # identical signatures from different modules? prefer exact header match on return type as well
            raise Inconclusive(f'ambiguous callee {callee}: ' + ', '.join(b.header[:120] for b in cands))
        if len(cands) == 1:
            b = cands[0]
            if c.trait_head in ('Clone', 'PartialEq', 'PartialOrd', 'Ord', 'Hash', 'Debug') and is_derived(interp, b):
                r = ('model', f'derived::{c.trait_head}::{c.method}')
            else:
                r = ('body', b)
        else:
            # provided (default) method of a local trait
            dflt = [b for b in interp.mir.by_method.get(c.method, []) if b.span is None and len(b.params) == len(argv)
                    and b.name.split('::')[-2:-1] == [c.trait_head]]
            if len(dflt) == 1:
                r = ('body', dflt[0], S)
            else:
                r = ('model', f'{c.trait_head}::{c.method}')
        interp._resolve_cache[ck] = r
        return r
    ck = (callee, None, len(argv))
    r = interp._resolve_cache.get(ck)
    if r is not None:
        return r
    if c.kind == 'path':
        r = resolve_path(interp, c, len(argv))
    else:  # <T>::method
        r = ('model', f'{ty_head(c.self_ty)}::{c.method}')
    interp._resolve_cache[ck] = r
    return r


def resolve_path(interp, c, nargs):
    mir = interp.mir
    if c.impl_ty is not None:
        k = c.segs.index('<impl>')
        prefix = '::'.join(c.segs[:k])
        tail = c.segs[k + 1:]
        cands = []
        for b in mir.by_method.get(c.method, []):
            if b.span is None:
                continue
            nm = b.name
            pre = nm.split('::<impl at')[0]
            if pre != prefix:
                continue
            btail = [x for x in split_top(nm.split('>', 1)[1] if '>' in nm else nm, '::') if x]
            # name after the impl marker must match (method, possibly nested fn)
            after = nm[nm.index('<impl at'):]
            after = after[after.index('>::') + 3:]
            if after != '::'.join(tail):
                continue
            if len(b.params) != nargs:
                continue
            cands.append(b)
        if len(cands) > 1:
            # disambiguate with the impl's self type in the source
            keep = []
            for b in cands:
                txt = span_text(interp, b) or ''
                hdr = impl_header(txt)
                if hdr and ty_head(hdr[1]) == ty_head(c.impl_ty) and hdr[0] is None:
                    keep.append(b)
            if len(keep) >= 1:
                cands = keep
        if len(cands) > 1:
            # same impl type in several impl blocks with the same method name cannot happen; compare first param
            S0 = strip_ref(c.impl_ty)
            keep = [b for b in cands if b.param_tys and strip_ref(norm_ty(b.param_tys[0])) == S0]
            if keep:
                cands = keep
        if len(cands) == 1:
            return ('body', cands[0])
        if len(cands) > 1:
            raise Inconclusive(f'ambiguous inherent callee {c.raw}: ' + ', '.join(b.header[:100] for b in cands))
        return ('model', f'{ty_head(c.impl_ty)}::{c.method}')
    name = '::'.join(c.segs)
    bs = mir.bodies.get(name)
    if bs:
        bs = [b for b in bs if len(b.params) == nargs]
        if len(bs) == 1:
            return ('body', bs[0])
        if len(bs) > 1:
            raise Inconclusive('ambiguous path callee ' + c.raw)
    if len(c.segs) >= 2 and c.segs[-2][:1].isupper():
        tyname = c.segs[-2]
        modpre = '::'.join(c.segs[:-2])
        cands = []
        for b in mir.by_method.get(c.method, []):
            if b.span is None or len(b.params) != nargs:
                continue
            if not b.name.endswith('>::' + c.method):
                continue
            pre = b.name.split('::<impl at')[0]
            if modpre and pre != modpre:
                continue
            txt = span_text(interp, b) or ''
            hdr = impl_header(txt)
            if hdr is not None and '$' not in txt:
                if hdr[0] is not None or ty_head(hdr[1]) != tyname:
                    continue
            else:
                # derive-generated inherent method (prost accessors): self type from the first parameter
                if not b.param_tys:
                    continue
                p0 = strip_ref(norm_ty(b.param_tys[0]))
                if ty_head(p0) == 'Option' and generic_args(p0):
                    p0 = generic_args(p0)[0]          # oneof `merge(&mut Option<Enum>, ..)`
                if ty_head(p0) != tyname:
                    continue
            cands.append(b)
        if len(cands) == 1:
            return ('body', cands[0])
        if len(cands) > 1:
            raise Inconclusive(f'ambiguous inherent callee {c.raw}: ' + ', '.join(b.header[:100] for b in cands))
    # tuple-struct / enum-variant constructors used as functions, e.g. `VariableID(…)`, `Some`
    if len(c.segs) >= 2:
        return ('model', '::'.join(c.segs[-2:]))
    return ('model', name)
