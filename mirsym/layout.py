"""Struct / enum layouts (field order, variant discriminants) read from the crate's source.

MIR refers to fields by index and to variants by name/discriminant; harness drivers want names.
Field order in MIR == declaration order, so a light-weight scan of the source is enough.
"""
import os, re


def _strip(src):
    """remove comments and string/char literal contents (keeps length irrelevant)."""
    out = []
    i, n = 0, len(src)
    while i < n:
        c = src[i]
        if src.startswith('//', i):
            j = src.find('\n', i)
            i = n if j == -1 else j
            continue
        if src.startswith('/*', i):
            j = src.find('*/', i + 2)
            i = n if j == -1 else j + 2
            continue
        if c == '"':
            j = i + 1
            while j < n and src[j] != '"':
                j += 2 if src[j] == '\\' else 1
            out.append('""')
            i = j + 1
            continue
        if c == 'r' and re.match(r'r#*"', src[i:i + 6]) and (i == 0 or not (src[i - 1].isalnum() or src[i - 1] == '_')):
            m = re.match(r'r(#*)"', src[i:])
            end = '"' + m.group(1)
            j = src.find(end, i + len(m.group(0)))
            out.append('""')
            i = j + len(end)
            continue
        if c == "'":
            m = re.match(r"'(\\.[^']*|[^'\\])'", src[i:])
            if m:
                out.append("' '")
                i += len(m.group(0))
                continue
        out.append(c)
        i += 1
    return ''.join(out)


def _match(s, i, o, c):
    d = 0
    while i < len(s):
        if s[i] == o:
            d += 1
        elif s[i] == c:
            d -= 1
            if d == 0:
                return i
        i += 1
    raise ValueError('unbalanced')


def _split_top(s):
    out, cur, d = [], [], 0
    i = 0
    while i < len(s):
        ch = s[i]
        if ch in '([{<':
            d += 1
        elif ch in ')]}':
            d -= 1
        elif ch == '>' and not (i and s[i - 1] in '-='):
            d -= 1
        if ch == ',' and d == 0:
            out.append(''.join(cur).strip()); cur = []
        else:
            cur.append(ch)
        i += 1
    t = ''.join(cur).strip()
    if t:
        out.append(t)
    return out


_attr = re.compile(r'#\s*!?\[')


def _strip_attrs(s):
    while True:
        m = _attr.search(s)
        if not m:
            return s
        e = _match(s, m.end() - 1, '[', ']')
        s = s[:m.start()] + s[e + 1:]


class StructDef:
    def __init__(self, path, fields, tys, tuple_like):
        self.path, self.fields, self.tys, self.tuple_like = path, fields, tys, tuple_like

    def index(self, name):
        return self.fields.index(name)


class EnumDef:
    def __init__(self, path, variants):
        self.path = path
        self.variants = variants  # list of (name, discr, fields(list of names or None), tys)
        self.by_name = {v[0]: v for v in variants}
        self.by_discr = {v[1]: v for v in variants}


class Layouts:
    def __init__(self, srcroot):
        self.structs = {}
        self.enums = {}
        for dp, dn, fn in os.walk(srcroot):
            for f in fn:
                if f.endswith('.rs'):
                    self._scan_file(os.path.join(dp, f), srcroot)

    def _modpath(self, path, root):
        rel = os.path.relpath(path, root)[:-3]
        parts = rel.split(os.sep)
        if parts[-1] in ('lib', 'mod'):
            parts = parts[:-1]
        if parts == ['ommx.v1']:
            parts = ['v1']
        if parts and parts[0] == 'bin':
            parts = ['<bin>'] + parts[1:]
        return parts

    def _scan_file(self, path, root):
        src = _strip_attrs(_strip(open(path).read()))
        self._scan(src, self._modpath(path, root))

    def _scan(self, src, mod):
        i = 0
        pat = re.compile(r'\b(mod|struct|enum)\s+([A-Za-z_]\w*)')
        while True:
            m = pat.search(src, i)
            if not m:
                return
            kind, name = m.group(1), m.group(2)
            j = m.end()
            # skip generics
            k = j
            while k < len(src) and src[k].isspace():
                k += 1
            if k < len(src) and src[k] == '<':
                k = _match(src, k, '<', '>') + 1
            # skip where clauses up to '{', '(' or ';'
            while k < len(src) and src[k] not in '{(;':
                k += 1
            if k >= len(src):
                return
            if kind == 'mod':
                if src[k] == '{':
                    e = _match(src, k, '{', '}')
                    self._scan(src[k + 1:e], mod + [name])
                    i = e + 1
                else:
                    i = k + 1
                continue
            if kind == 'struct':
                path = '::'.join(mod + [name])
                if src[k] == '{':
                    e = _match(src, k, '{', '}')
                    fields, tys = [], []
                    for part in _split_top(src[k + 1:e]):
                        part = re.sub(r'^\s*pub(\s*\([^)]*\))?\s+', '', part.strip())
                        if ':' not in part:
                            continue
                        nm, ty = part.split(':', 1)
                        fields.append(nm.strip()); tys.append(' '.join(ty.split()))
                    self.structs[path] = StructDef(path, fields, tys, False)
                    i = e + 1
                elif src[k] == '(':
                    e = _match(src, k, '(', ')')
                    tys = [re.sub(r'^\s*pub(\s*\([^)]*\))?\s+', '', p.strip()) for p in _split_top(src[k + 1:e])]
                    self.structs[path] = StructDef(path, [str(n) for n in range(len(tys))], tys, True)
                    i = e + 1
                else:
                    self.structs[path] = StructDef(path, [], [], True)
                    i = k + 1
                continue
            if kind == 'enum':
                path = '::'.join(mod + [name])
                if src[k] != '{':
                    i = k + 1
                    continue
                e = _match(src, k, '{', '}')
                variants = []
                nxt = 0
                for part in _split_top(src[k + 1:e]):
                    part = part.strip()
                    mm = re.match(r'([A-Za-z_]\w*)\s*(.*)$', part, re.S)
                    if not mm:
                        continue
                    vn, rest = mm.group(1), mm.group(2).strip()
                    fields, tys = None, []
                    discr = nxt
                    if rest.startswith('('):
                        ce = _match(rest, 0, '(', ')')
                        tys = [t.strip() for t in _split_top(rest[1:ce])]
                        fields = [str(n) for n in range(len(tys))]
                        rest = rest[ce + 1:].strip()
                    elif rest.startswith('{'):
                        ce = _match(rest, 0, '{', '}')
                        fields = []
                        for fp in _split_top(rest[1:ce]):
                            if ':' in fp:
                                a, b = fp.split(':', 1)
                                fields.append(a.strip()); tys.append(' '.join(b.split()))
                        rest = rest[ce + 1:].strip()
                    if rest.startswith('='):
                        discr = int(rest[1:].strip().replace('_', ''), 0)
                    variants.append((vn, discr, fields, tys))
                    nxt = discr + 1
                self.enums[path] = EnumDef(path, variants)
                i = e + 1
                continue

    @staticmethod
    def _suffix_match(table, printed):
        printed = re.sub(r'::<.*?>(?=::|$)', '', printed) if '<' in printed else printed
        if printed in table:
            return table[printed]
        hits = [v for k, v in table.items() if k.endswith('::' + printed)]
        if len(hits) == 1:
            return hits[0]
        return None

    def struct(self, printed):
        return self._suffix_match(self.structs, printed)

    def enum(self, printed):
        return self._suffix_match(self.enums, printed)


if __name__ == '__main__':
    import sys
    L = Layouts(sys.argv[1])
    print(len(L.structs), 'structs', len(L.enums), 'enums')
    for k in ('v1::Linear', 'v1::Instance', 'v1::Function', 'bound::Bound', 'v1::function::Function',
              'v1::decision_variable::Kind', 'instance::Instance', 'mps::parser::Mps'):
        d = L.structs.get(k) or L.enums.get(k)
        print(k, getattr(d, 'fields', None) or getattr(d, 'variants', None))
