"""Minimal proto3 schema parser (for proto/ommx/v1/*.proto) and a schema-driven wire codec.

Used (a) as the transport between the python engine and the native replay binary and
(b) as the independent schema oracle of C07.
"""
import os, re, struct, glob


class Field:
    def __init__(self, name, number, ty, label, oneof=None, map_kv=None, deprecated=False):
        self.name, self.number, self.ty, self.label = name, number, ty, label  # label: '', 'optional', 'repeated', 'map'
        self.oneof, self.map_kv, self.deprecated = oneof, map_kv, deprecated

    def __repr__(self):
        return f'{self.label} {self.ty} {self.name}={self.number}' + (f' oneof {self.oneof}' if self.oneof else '')


class Message:
    def __init__(self, full):
        self.full = full
        self.fields = []
        self.oneofs = {}   # name -> [Field]

    def by_name(self, n):
        for f in self.fields:
            if f.name == n:
                return f
        raise KeyError(n)


class EnumT:
    def __init__(self, full):
        self.full = full
        self.values = {}   # NAME -> number


SCALARS = {'double', 'float', 'int32', 'int64', 'uint32', 'uint64', 'sint32', 'sint64', 'fixed32', 'fixed64',
           'sfixed32', 'sfixed64', 'bool', 'string', 'bytes'}


def _strip_comments(s):
    s = re.sub(r'/\*.*?\*/', '', s, flags=re.S)
    return re.sub(r'//[^\n]*', '', s)


class Schema:
    def __init__(self, protodir):
        self.messages = {}
        self.enums = {}
        for p in sorted(glob.glob(os.path.join(protodir, '*.proto'))):
            self._parse(_strip_comments(open(p).read()))
        self._resolve()

    def _parse(self, src):
        m = re.search(r'package\s+([\w.]+)\s*;', src)
        pkg = m.group(1) if m else ''
        toks = re.findall(r'"[^"]*"|[A-Za-z_][\w.]*|\d+|[{}=;<>,\[\]()]|-', src)
        self._block(toks, 0, pkg, None)

    def _block(self, t, i, scope, msg):
        """parse declarations until the closing '}' of the current block; returns index after it"""
        while i < len(t):
            tok = t[i]
            if tok == '}':
                return i + 1
            if tok in ('syntax', 'package', 'import', 'option'):
                while t[i] != ';':
                    i += 1
                i += 1
                continue
            if tok == 'message':
                name = t[i + 1]
                full = f'{scope}.{name}'
                mm = Message(full)
                self.messages[full] = mm
                i = self._block(t, i + 3, full, mm)
                continue
            if tok == 'enum':
                name = t[i + 1]
                full = f'{scope}.{name}'
                e = EnumT(full)
                self.enums[full] = e
                i += 3
                while t[i] != '}':
                    if t[i] == 'option' or t[i] == 'reserved':
                        while t[i] != ';':
                            i += 1
                        i += 1
                        continue
                    nm = t[i]
                    assert t[i + 1] == '='
                    j = i + 2
                    neg = False
                    if t[j] == '-':
                        neg = True
                        j += 1
                    e.values[nm] = -int(t[j]) if neg else int(t[j])
                    while t[j] != ';':
                        j += 1
                    i = j + 1
                i += 1
                continue
            if tok == 'oneof':
                oname = t[i + 1]
                i += 3
                group = []
                while t[i] != '}':
                    ty, nm = t[i], t[i + 1]
                    num = int(t[i + 3])
                    j = i + 4
                    while t[j] != ';':
                        j += 1
                    f = Field(nm, num, ty, '', oneof=oname)
                    f.scope = scope
                    group.append(f)
                    msg.fields.append(f)
                    i = j + 1
                msg.oneofs[oname] = group
                i += 1
                continue
            if tok == 'reserved':
                while t[i] != ';':
                    i += 1
                i += 1
                continue
            if tok == ';':
                i += 1
                continue
            # field
            label = ''
            if tok in ('optional', 'repeated', 'required'):
                label = tok
                i += 1
            if t[i] == 'map':
                assert t[i + 1] == '<'
                k, v = t[i + 2], t[i + 4]
                assert t[i + 5] == '>'
                nm = t[i + 6]
                num = int(t[i + 8])
                j = i + 9
                f = Field(nm, num, 'map', 'map', map_kv=(k, v))
            else:
                ty, nm = t[i], t[i + 1]
                assert t[i + 2] == '=', (t[i:i + 6], scope)
                num = int(t[i + 3])
                j = i + 4
                f = Field(nm, num, ty, label)
            dep = False
            while t[j] != ';':
                if t[j] == 'deprecated':
                    dep = True
                j += 1
            f.deprecated = dep
            f.scope = scope
            msg.fields.append(f)
            i = j + 1
        return i

    def _lookup(self, ty, scope):
        """resolve a type name relative to a scope; returns ('msg'|'enum', full) or None"""
        parts = scope.split('.')
        for k in range(len(parts), -1, -1):
            cand = '.'.join(parts[:k] + [ty]) if k else ty
            if cand in self.messages:
                return ('msg', cand)
            if cand in self.enums:
                return ('enum', cand)
        return None

    def _resolve(self):
        for m in self.messages.values():
            for f in m.fields:
                if f.label == 'map':
                    k, v = f.map_kv
                    if v not in SCALARS:
                        r = self._lookup(v, f.scope)
                        f.map_kv = (k, r)
                    continue
                if f.ty in SCALARS:
                    f.kind = 'scalar'
                else:
                    r = self._lookup(f.ty, f.scope)
                    if r is None:
                        raise ValueError(f'unresolved type {f.ty} in {m.full}')
                    f.kind, f.ref = r
                    f.ty = r


# ----------------------------------------------------------------------------- wire codec

def _varint(n):
    n &= (1 << 64) - 1
    out = bytearray()
    while True:
        b = n & 0x7f
        n >>= 7
        if n:
            out.append(b | 0x80)
        else:
            out.append(b)
            return bytes(out)


def _read_varint(buf, i):
    shift = 0
    val = 0
    while True:
        b = buf[i]
        i += 1
        val |= (b & 0x7f) << shift
        if not b & 0x80:
            return val, i
        shift += 7


WT = {'double': 1, 'fixed64': 1, 'sfixed64': 1, 'float': 5, 'fixed32': 5, 'sfixed32': 5, 'string': 2, 'bytes': 2}


def wire_type(ty):
    if isinstance(ty, tuple):
        return 2 if ty[0] == 'msg' else 0
    return WT.get(ty, 0)


def _enc_scalar(ty, v):
    if isinstance(ty, tuple):  # enum
        return _varint(int(v))
    if ty == 'double':
        return struct.pack('<d', v)
    if ty == 'float':
        return struct.pack('<f', v)
    if ty in ('int32', 'int64', 'uint32', 'uint64'):
        return _varint(int(v))
    if ty == 'bool':
        return _varint(1 if v else 0)
    if ty in ('sint32', 'sint64'):
        v = int(v)
        return _varint((v << 1) ^ (v >> 63))
    if ty == 'string':
        b = v.encode()
        return _varint(len(b)) + b
    if ty == 'bytes':
        return _varint(len(v)) + v
    raise ValueError(ty)


def _is_default(ty, v):
    if isinstance(ty, tuple):
        return int(v) == 0
    if ty in ('double', 'float'):
        return v == 0 and str(v)[0] != '-'   # -0.0 is encoded
    if ty == 'bool':
        return not v
    if ty in ('string', 'bytes'):
        return len(v) == 0
    return int(v) == 0


class Codec:
    def __init__(self, schema):
        self.s = schema

    def encode(self, full, d):
        m = self.s.messages[full]
        out = bytearray()
        for f in sorted(m.fields, key=lambda f: f.number):
            if f.oneof:
                if d.get(f.oneof) is None or d[f.oneof][0] != f.name:
                    continue
                v = d[f.oneof][1]
                out += self._field(f, v, force=True)
                continue
            if f.name not in d or d[f.name] is None:
                continue
            v = d[f.name]
            if f.label == 'map':
                kt, vt = f.map_kv
                for k, x in (v.items() if isinstance(v, dict) else v):
                    inner = _varint((1 << 3) | wire_type(kt)) + _enc_scalar(kt, k)
                    if isinstance(vt, tuple) and vt[0] == 'msg':
                        b = self.encode(vt[1], x)
                        inner += _varint((2 << 3) | 2) + _varint(len(b)) + b
                    else:
                        inner += _varint((2 << 3) | wire_type(vt)) + _enc_scalar(vt, x)
                    out += _varint((f.number << 3) | 2) + _varint(len(inner)) + inner
                continue
            if f.label == 'repeated':
                if not v:
                    continue
                if f.kind == 'msg':
                    for x in v:
                        b = self.encode(f.ref, x)
                        out += _varint((f.number << 3) | 2) + _varint(len(b)) + b
                elif f.ty in ('string', 'bytes'):
                    for x in v:
                        out += _varint((f.number << 3) | 2) + _enc_scalar(f.ty, x)
                else:
                    body = b''.join(_enc_scalar(f.ty, x) for x in v)
                    out += _varint((f.number << 3) | 2) + _varint(len(body)) + body
                continue
            out += self._field(f, v, force=(f.label == 'optional'))
        return bytes(out)

    def _field(self, f, v, force):
        if f.kind == 'msg':
            b = self.encode(f.ref, v)
            return _varint((f.number << 3) | 2) + _varint(len(b)) + b
        if not force and _is_default(f.ty, v):
            return b''
        return _varint((f.number << 3) | wire_type(f.ty)) + _enc_scalar(f.ty, v)

    # -- decode
    def decode(self, full, buf):
        m = self.s.messages[full]
        d = {}
        for f in m.fields:
            if f.oneof:
                d.setdefault(f.oneof, None)
            elif f.label == 'map':
                d[f.name] = []
            elif f.label == 'repeated':
                d[f.name] = []
            elif f.label == 'optional' or f.kind == 'msg':
                d[f.name] = None
            else:
                d[f.name] = self._default(f.ty)
        bynum = {f.number: f for f in m.fields}
        i = 0
        while i < len(buf):
            key, i = _read_varint(buf, i)
            num, wt = key >> 3, key & 7
            f = bynum.get(num)
            if f is None:
                i = self._skip(buf, i, wt)
                continue
            if f.label == 'map':
                ln, i = _read_varint(buf, i)
                sub = buf[i:i + ln]
                i += ln
                kt, vt = f.map_kv
                k = self._default(kt)
                x = {} if (isinstance(vt, tuple) and vt[0] == 'msg') else self._default(vt)
                j = 0
                while j < len(sub):
                    kk, j = _read_varint(sub, j)
                    if kk >> 3 == 1:
                        k, j = self._dec_scalar(kt, sub, j)
                    elif kk >> 3 == 2:
                        if isinstance(vt, tuple) and vt[0] == 'msg':
                            l2, j = _read_varint(sub, j)
                            x = self.decode(vt[1], sub[j:j + l2])
                            j += l2
                        else:
                            x, j = self._dec_scalar(vt, sub, j)
                    else:
                        j = self._skip(sub, j, kk & 7)
                if isinstance(x, dict) and not x and isinstance(vt, tuple) and vt[0] == 'msg':
                    x = self.decode(vt[1], b'')
                d[f.name] = [e for e in d[f.name] if e[0] != k] + [(k, x)]
                continue
            if f.kind == 'msg':
                ln, i = _read_varint(buf, i)
                v = self.decode(f.ref, buf[i:i + ln])
                i += ln
            elif wt == 2 and f.label == 'repeated' and f.ty not in ('string', 'bytes'):
                ln, i = _read_varint(buf, i)
                end = i + ln
                while i < end:
                    v, i = self._dec_scalar(f.ty, buf, i)
                    d[f.name].append(v)
                continue
            else:
                v, i = self._dec_scalar(f.ty, buf, i)
            if f.oneof:
                d[f.oneof] = (f.name, v)
            elif f.label == 'repeated':
                d[f.name].append(v)
            else:
                d[f.name] = v
        return d

    def _default(self, ty):
        if isinstance(ty, tuple):
            return 0
        if ty in ('double', 'float'):
            return 0.0
        if ty == 'bool':
            return False
        if ty == 'string':
            return ''
        if ty == 'bytes':
            return b''
        return 0

    def _dec_scalar(self, ty, buf, i):
        if isinstance(ty, tuple):
            v, i = _read_varint(buf, i)
            if v >= 1 << 63:
                v -= 1 << 64
            return v, i
        if ty == 'double':
            return struct.unpack('<d', buf[i:i + 8])[0], i + 8
        if ty == 'float':
            return struct.unpack('<f', buf[i:i + 4])[0], i + 4
        if ty in ('uint64', 'uint32'):
            return _read_varint(buf, i)
        if ty in ('int64', 'int32'):
            v, i = _read_varint(buf, i)
            if v >= 1 << 63:
                v -= 1 << 64
            return v, i
        if ty == 'bool':
            v, i = _read_varint(buf, i)
            return bool(v), i
        if ty == 'string':
            ln, i = _read_varint(buf, i)
            return bytes(buf[i:i + ln]).decode(), i + ln
        if ty == 'bytes':
            ln, i = _read_varint(buf, i)
            return bytes(buf[i:i + ln]), i + ln
        raise ValueError(ty)

    def _skip(self, buf, i, wt):
        if wt == 0:
            _, i = _read_varint(buf, i)
            return i
        if wt == 1:
            return i + 8
        if wt == 5:
            return i + 4
        if wt == 2:
            ln, i = _read_varint(buf, i)
            return i + ln
        raise ValueError('wire type ' + str(wt))


if __name__ == '__main__':
    import sys
    s = Schema(sys.argv[1])
    for k, m in s.messages.items():
        print(k, m.fields)
    for k, e in s.enums.items():
        print(k, e.values)
