"""Conversion between interpreter values (Agg/Enum/RVec/RMap/FV...) and plain python dict messages,
driven by the .proto schema and the Rust struct layouts. With a z3 model, symbolic leaves are
evaluated, so a counterexample becomes a concrete message."""
import re, math
from fractions import Fraction
import z3

from .values import *
from .models import deref


def snake(s):
    s = re.sub(r'(?<=[a-z0-9])([A-Z])', r'_\1', s)
    return s.lower()


def camel(s):
    # heck's UpperCamelCase: words split at case changes / underscores / digits boundaries are kept simple here
    if s.isupper() or re.fullmatch(r'[A-Z0-9]+', s):
        return s[0] + s[1:].lower()
    return ''.join(w[:1].upper() + w[1:] for w in s.split('_'))


def rust_path(full):
    parts = full.split('.')[2:]   # drop ommx.v1
    return '::'.join(['v1'] + [snake(p) for p in parts[:-1]] + [camel(parts[-1])])


def fv_to_float(x, model=None):
    if x.tag == 'pinf':
        return math.inf
    if x.tag == 'ninf':
        return -math.inf
    if x.tag == 'nan':
        return math.nan
    r = x.r
    if not isinstance(r, Fraction):
        if model is None:
            raise ValueError('symbolic float without model')
        v = model.eval(r, model_completion=True)
        if z3.is_algebraic_value(v):
            v = v.approx(40)
        r = Fraction(v.numerator_as_long(), v.denominator_as_long())
    return float(r)


def fv_to_fraction(x, model=None):
    if x.tag != 'fin':
        return x.tag
    r = x.r
    if not isinstance(r, Fraction):
        v = model.eval(r, model_completion=True)
        if z3.is_algebraic_value(v):
            v = v.approx(40)
        r = Fraction(v.numerator_as_long(), v.denominator_as_long())
    return r


def float_to_fv(f):
    if f != f:
        return NAN
    if f == math.inf:
        return PINF
    if f == -math.inf:
        return NINF
    return FV('fin', Fraction(f))


def int_of(x, model=None):
    if isinstance(x, bool):
        return int(x)
    if isinstance(x, int):
        return x
    if isinstance(x, Enum):
        return x.discr
    if model is None:
        raise ValueError('symbolic int without model')
    return model.eval(x, model_completion=True).as_long()


def bool_of(x, model=None):
    if isinstance(x, bool):
        return x
    return z3.is_true(model.eval(x, model_completion=True))


def str_of(x):
    x = deref(x)
    if isinstance(x, RString):
        x = x.s
    return x if isinstance(x, str) else repr(x)


class Conv:
    def __init__(self, eng, schema):
        self.e, self.s = eng, schema

    # ---- value -> dict
    def scalar_out(self, ty, v, model):
        v = deref(v)
        if isinstance(ty, tuple):  # enum
            return int_of(v, model)
        if ty in ('double', 'float'):
            return fv_to_float(v, model)
        if ty == 'bool':
            return bool_of(v, model)
        if ty == 'string':
            return str_of(v)
        n = int_of(v, model)
        if ty in ('int64', 'int32') and n >= 1 << 63:
            n -= 1 << 64
        return n

    def to_dict(self, val, full, model=None):
        val = deref(val)
        m = self.s.messages[full]
        sd = self.e.layouts.structs[rust_path(full)]
        d = {}
        for f in m.fields:
            if f.oneof:
                if f.oneof in d:
                    continue
                ov = deref(val.f[sd.index(f.oneof)])
                if ov.discr == 0:
                    d[f.oneof] = None
                else:
                    en = deref(ov.f[0])
                    ff = [g for g in m.oneofs[f.oneof] if camel(g.name) == en.vname][0]
                    x = en.f[0]
                    d[f.oneof] = (ff.name, self.to_dict(x, ff.ref, model) if ff.kind == 'msg' else self.scalar_out(ff.ty, x, model))
                continue
            v = deref(val.f[sd.index(f.name)])
            if f.label == 'map':
                kt, vt = f.map_kv
                out = []
                for k, x in v.entries:
                    kk = self.scalar_out(kt, k, model)
                    xx = self.to_dict(x, vt[1], model) if isinstance(vt, tuple) and vt[0] == 'msg' else self.scalar_out(vt, x, model)
                    out.append((kk, xx))
                d[f.name] = out
            elif f.label == 'repeated':
                d[f.name] = [self.to_dict(x, f.ref, model) if f.kind == 'msg' else self.scalar_out(f.ty, x, model) for x in v.items]
            elif f.kind == 'msg' or f.label == 'optional':
                if v.discr == 0:
                    d[f.name] = None
                else:
                    x = v.f[0]
                    d[f.name] = self.to_dict(x, f.ref, model) if f.kind == 'msg' else self.scalar_out(f.ty, x, model)
            else:
                d[f.name] = self.scalar_out(f.ty, v, model)
        return d

    # ---- dict -> value
    def scalar_in(self, ty, v):
        if z3.is_expr(v) or isinstance(v, (FV, RString)):
            return v          # already an interpreter value (symbolic leaf)
        if isinstance(ty, tuple):
            return int(v)
        if ty in ('double', 'float'):
            return float_to_fv(v) if not isinstance(v, FV) else v
        if ty == 'bool':
            return bool(v)
        if ty == 'string':
            return RString(v)
        return int(v)

    def from_dict(self, d, full):
        m = self.s.messages[full]
        rp = rust_path(full)
        sd = self.e.layouts.structs[rp]
        vals = {}
        for f in m.fields:
            if f.oneof:
                if f.oneof in vals:
                    continue
                ov = d.get(f.oneof)
                if ov is None:
                    vals[f.oneof] = NONE()
                else:
                    ff = m.by_name(ov[0])
                    x = self.from_dict(ov[1], ff.ref) if ff.kind == 'msg' else self.scalar_in(ff.ty, ov[1])
                    parts = full.split('.')[2:]
                    epath = '::'.join(['v1'] + [snake(p) for p in parts] + [camel(f.oneof)])
                    vals[f.oneof] = Some(self.e.variant(epath, camel(ov[0]), x))
                continue
            v = d.get(f.name)
            if f.label == 'map':
                kt, vt = f.map_kv
                ents = []
                for k, x in (v.items() if isinstance(v, dict) else (v or [])):
                    xx = self.from_dict(x, vt[1]) if isinstance(vt, tuple) and vt[0] == 'msg' else self.scalar_in(vt, x)
                    ents.append([self.scalar_in(kt, k), xx])
                vals[f.name] = RMap('hash', False, ents)
            elif f.label == 'repeated':
                vals[f.name] = RVec([self.from_dict(x, f.ref) if f.kind == 'msg' else self.scalar_in(f.ty, x) for x in (v or [])])
            elif f.kind == 'msg' or f.label == 'optional':
                if v is None:
                    vals[f.name] = NONE()
                else:
                    vals[f.name] = Some(self.from_dict(v, f.ref) if f.kind == 'msg' else self.scalar_in(f.ty, v))
            else:
                vals[f.name] = self.scalar_in(f.ty, v if v is not None else (0.0 if f.ty == 'double' else ('' if f.ty == 'string' else 0)))
        return Agg([vals[n] for n in sd.fields], self.e.printed(rp))
