"""Bounded symbolic executor for the MIR of the real crate.

Path exploration is by re-execution: every path is run from the start following a recorded
decision prefix; at a fresh decision point each alternative is checked for satisfiability with
z3 and the feasible ones not taken are queued.  The python heap *is* the program state, so no
state copying is needed and references / iterators can be ordinary python objects.
"""
import re, sys, time, copy, os
from fractions import Fraction
import z3

from .values import *
from . import mirparse
from .mirparse import split_top, parse_operand

sys.setrecursionlimit(20000)

INT_TYS = {'u8': (False, 8), 'u16': (False, 16), 'u32': (False, 32), 'u64': (False, 64), 'u128': (False, 128),
           'usize': (False, 64), 'i8': (True, 8), 'i16': (True, 16), 'i32': (True, 32), 'i64': (True, 64),
           'i128': (True, 128), 'isize': (True, 64), 'char': (False, 32), 'bool': (False, 1)}


_subst_cache = {}


def _subst_env(text, env):
    key = (text, tuple(sorted(env.items())))
    r = _subst_cache.get(key)
    if r is None:
        r = text
        for k, v in env.items():
            r = re.sub(r'(?<![\w:])' + re.escape(k) + r'(?![\w])', lambda m: v, r)
        _subst_cache[key] = r
    return r


def wrap_int(v, signed, bits):
    v &= (1 << bits) - 1
    if signed and v >> (bits - 1):
        v -= 1 << bits
    return v


def is_bv(x):
    return isinstance(x, z3.BitVecRef)


def is_sym(x):
    return isinstance(x, z3.ExprRef)


# ----------------------------------------------------------------------------- exploration context

class Ctx:
    def __init__(self, timeout_ms=30000):
        self.timeout_ms = timeout_ms
        self.queries = 0
        self.solver_time = 0.0
        self.steps_total = 0
        self.work = []
        self.prefix = []
        self.pos = 0
        self.solver = None
        self.base = []
        self.pc = []
        self.notes = {}
        self.hash_order = 'canonical'
        self.feas_timeout_ms = 5000
        self.unknown_feasible = 0

    # -- path management
    def start(self, prefix):
        self.prefix = list(prefix)
        self.pos = 0
        self.solver = z3.Solver()
        self.solver.set('timeout', self.timeout_ms)
        self.pc = []
        self.notes = {}
        self.fresh = 0

    def assume(self, c):
        if isinstance(c, bool):
            if not c:
                raise Infeasible()
            return
        self.pc.append(c)
        self.solver.add(c)

    def _check(self, *extra, retry=True):
        t = time.time()
        self.queries += 1
        r = self.solver.check(*extra)
        if retry and r == z3.unknown and ('cancel' in self.solver.reason_unknown() or 'timeout' in self.solver.reason_unknown()):
            # a time-out (not incompleteness): one retry in a fresh solver with four times the limit — machine load must not decide
            s2 = z3.Solver()
            s2.set('timeout', int(self.timeout_ms) * 4)
            s2.add(*self.solver.assertions())
            r = s2.check(*extra)
            if r != z3.unknown:
                self.retried = getattr(self, 'retried', 0) + 1
                if r == z3.sat:
                    self._retry_model = s2.model()
                    self.solver_time += time.time() - t
                    # keep the model reachable through the main solver interface
                    self.solver = _SolverWithModel(self.solver, self._retry_model)
                    return True
                self.solver_time += time.time() - t
                return False
        self.solver_time += time.time() - t
        if r == z3.unknown:
            raise Inconclusive('solver returned unknown: ' + self.solver.reason_unknown())
        return r == z3.sat

    def feasible(self, c=None):
        """satisfiability of pc (and c). A solver 'unknown' is treated as 'possibly feasible': exploring a path that is
        in fact infeasible is sound (its obligations are vacuous; a spurious model cannot survive the native replay)."""
        if isinstance(c, bool):
            if not c:
                return False
            c = None
        self.solver.set('timeout', self.feas_timeout_ms)
        try:
            return self._check(*([] if c is None else [c]), retry=False)
        except Inconclusive:
            self.unknown_feasible += 1
            return True
        finally:
            self.solver.set('timeout', self.timeout_ms)

    def branch(self, cond):
        """decide a (possibly symbolic) boolean; forks the exploration when both sides are feasible"""
        if isinstance(cond, bool):
            return cond
        cond = z3.simplify(cond)
        if z3.is_true(cond):
            return True
        if z3.is_false(cond):
            return False
        if self.pos < len(self.prefix):
            d = self.prefix[self.pos]
            self.pos += 1
            self.assume(cond if d else z3.Not(cond))
            return bool(d)
        t = self.feasible(cond)
        if t:
            f = self.feasible(z3.Not(cond))
            if f:
                self.work.append(self.prefix + [0])
            d = 1
        else:
            d = 0
        self.prefix.append(d)
        self.pos += 1
        self.assume(cond if d else z3.Not(cond))
        return bool(d)

    def choose(self, n, conds=None):
        """nondeterministic choice among n alternatives (optionally guarded by conditions);
        the chosen alternative's condition is assumed"""
        if self.pos < len(self.prefix):
            d = self.prefix[self.pos]
            self.pos += 1
            if conds is not None:
                self.assume(conds[d])
            return d
        alts = []
        for i in range(n):
            if conds is None or self.feasible(conds[i]):
                alts.append(i)
        if not alts:
            raise Infeasible()
        for a in alts[1:]:
            self.work.append(self.prefix + [a])
        d = alts[0]
        self.prefix.append(d)
        self.pos += 1
        if conds is not None:
            self.assume(conds[d])
        return d

    def valid(self, q):
        """is q implied by the path condition?  returns (True, None) or (False, model)"""
        if isinstance(q, bool):
            if q:
                return True, None
            ok = self._check()
            return (False, self.solver.model()) if ok else (True, None)
        sat = self._check(z3.Not(q))
        if sat:
            return False, self.solver.model()
        return True, None

    def model(self):
        if self._check():
            return self.solver.model()
        return None


class _SolverWithModel:
    """the path solver, answering model() once with a model found by the retry solver"""

    def __init__(self, inner, model):
        self._inner = inner._inner if isinstance(inner, _SolverWithModel) else inner
        self._model = model

    def model(self):
        m, self._model = self._model, None
        return m if m is not None else self._inner.model()

    def __getattr__(self, name):
        return getattr(self._inner, name)


class Infeasible(Exception):
    pass


def explore(ctx, run_path, max_paths=100000):
    """run_path(ctx) is executed once per feasible path. returns number of paths."""
    ctx.work = [[]]
    n = 0
    while ctx.work:
        prefix = ctx.work.pop()
        ctx.start(prefix)
        try:
            run_path(ctx)
        except Infeasible:
            continue
        n += 1
        if n > max_paths:
            raise Inconclusive('path budget exceeded')
    return n


# ----------------------------------------------------------------------------- generic value helpers

def deep_clone(v):
    if isinstance(v, Agg):
        return Agg([deep_clone(x) for x in v.f], v.ty)
    if isinstance(v, Enum):
        return Enum(v.ty, v.discr, v.vname, [deep_clone(x) for x in v.f])
    if isinstance(v, Blob):
        return v          # encoded bytes are immutable
    if isinstance(v, RVec):
        return RVec([deep_clone(x) for x in v.items])
    if isinstance(v, RMap):
        return RMap(v.kind, v.is_set, [[deep_clone(k), deep_clone(x)] for k, x in v.entries])
    if isinstance(v, SymString):
        return v
    if isinstance(v, RString):
        return RString(v.s)
    if isinstance(v, Closure):
        return Closure(v.name, [deep_clone(x) for x in v.caps], v.env, v.body)
    return v  # scalars, FV (immutable), Ref (pointer copy), str, Opaque


def copy_val(v):
    """`copy` of a Copy type"""
    if isinstance(v, (Agg, Enum, RVec, Closure)):
        return deep_clone(v)
    return v


def scalar_eq(a, b):
    if isinstance(a, FV) or isinstance(b, FV):
        return f_cmp('eq', a, b)
    if isinstance(a, bool) and isinstance(b, bool):
        return a == b
    if isinstance(a, (int, str)) and isinstance(b, (int, str)):
        return a == b
    if is_bv(a) and isinstance(b, int):
        b = z3.BitVecVal(b, a.size())
    elif is_bv(b) and isinstance(a, int):
        a = z3.BitVecVal(a, b.size())
    elif isinstance(a, bool) or isinstance(b, bool):
        a, b = z3bool(a), z3bool(b)
    r = a == b
    return r


def val_eq(a, b):
    """structural equality -> bool | z3 Bool (Rust PartialEq of derived types; f64 by IEEE ==)"""
    while isinstance(a, Ref):
        a = a.get()
    while isinstance(b, Ref):
        b = b.get()
    if isinstance(a, Agg) and isinstance(b, Agg):
        if len(a.f) != len(b.f):
            return False
        return b_and(*[val_eq(x, y) for x, y in zip(a.f, b.f)])
    if isinstance(a, Enum) and isinstance(b, Enum):
        if a.discr != b.discr:
            return False
        return b_and(*[val_eq(x, y) for x, y in zip(a.f, b.f)])
    if isinstance(a, (RVec, SliceView)) and isinstance(b, (RVec, SliceView)):
        if len(a.items) != len(b.items):
            return False
        return b_and(*[val_eq(x, y) for x, y in zip(a.items, b.items)])
    if isinstance(a, SymString) and isinstance(b, SymString):
        return a.bv == b.bv
    if isinstance(a, RString) or isinstance(b, RString):
        sa = a.s if isinstance(a, RString) else a
        sb = b.s if isinstance(b, RString) else b
        return sa == sb
    if isinstance(a, RMap) and isinstance(b, RMap):
        return map_eq(a, b)
    if isinstance(a, Opaque) or isinstance(b, Opaque):
        raise Unsupported('equality on opaque value')
    return scalar_eq(a, b)


def map_eq(a, b):
    if len(a.entries) != len(b.entries):
        # keys within one map are pairwise distinct, so different sizes => different maps
        return False
    conj = []
    for k, v in a.entries:
        alts = []
        for k2, v2 in b.entries:
            alts.append(b_and(val_eq(k, k2), True if a.is_set else val_eq(v, v2)))
        conj.append(b_or(*alts))
    return b_and(*conj)


def int_lt(a, b, signed):
    if isinstance(a, int) and isinstance(b, int):
        return a < b
    if isinstance(a, int):
        a = z3.BitVecVal(a, b.size())
    if isinstance(b, int):
        b = z3.BitVecVal(b, a.size())
    return (a < b) if signed else z3.ULT(a, b)


def val_lt(a, b, signed=False):
    """strict lexicographic order -> bool | z3 Bool (derived Ord / tuple / Vec / Option ordering)"""
    while isinstance(a, Ref):
        a = a.get()
    while isinstance(b, Ref):
        b = b.get()
    if isinstance(a, FV):
        return f_cmp('lt', a, b)
    if isinstance(a, (Agg,)) and isinstance(b, Agg):
        return seq_lt(a.f, b.f)
    if isinstance(a, (RVec, SliceView)):
        return seq_lt(a.items, b.items)
    if isinstance(a, RMap) and isinstance(b, RMap):
        # BTreeSet / BTreeMap order: lexicographic over the elements in key order
        if a.is_set:
            return seq_lt([e[0] for e in a.entries], [e[0] for e in b.entries])
        return seq_lt([Agg([e[0], e[1]]) for e in a.entries], [Agg([e[0], e[1]]) for e in b.entries])
    if isinstance(a, Enum):
        if a.discr != b.discr:
            return a.discr < b.discr
        return seq_lt(a.f, b.f)
    if isinstance(a, (RString, str)):
        sa = a.s if isinstance(a, RString) else a
        sb = b.s if isinstance(b, RString) else b
        return sa < sb
    if isinstance(a, bool) and isinstance(b, bool):
        return (not a) and b
    return int_lt(a, b, signed)


def seq_lt(xs, ys):
    # lexicographic; shorter prefix is smaller
    n = min(len(xs), len(ys))
    res = len(xs) < len(ys)
    for i in range(n - 1, -1, -1):
        lt = val_lt(xs[i], ys[i])
        eq = val_eq(xs[i], ys[i])
        if isinstance(lt, bool) and isinstance(eq, bool):
            res = True if lt else (res if eq else False)
        else:
            res = z3.If(z3bool(lt), z3.BoolVal(True), z3.If(z3bool(eq), z3bool(res), z3.BoolVal(False)))
            res = z3.simplify(res)
            if z3.is_true(res):
                res = True
            elif z3.is_false(res):
                res = False
    return res


# ----------------------------------------------------------------------------- f64 ops (R-model)

def f_cmp(op, a, b):
    if a.tag == 'nan' or b.tag == 'nan':
        return op == 'ne'
    if a.tag == 'fin' and b.tag == 'fin':
        return r_cmp(op, a.r, b.r)
    rank = {'ninf': -1, 'fin': 0, 'pinf': 1}
    x, y = rank[a.tag], rank[b.tag]
    return {'lt': x < y, 'le': x <= y, 'gt': x > y, 'ge': x >= y, 'eq': x == y, 'ne': x != y}[op]


def f_neg(a):
    if a.tag == 'fin':
        return FV('fin', r_neg(a.r))
    return {'pinf': NINF, 'ninf': PINF, 'nan': NAN}[a.tag]


def f_add(a, b):
    if a.tag == 'nan' or b.tag == 'nan':
        return NAN
    if a.tag == 'fin' and b.tag == 'fin':
        return FV('fin', r_add(a.r, b.r))
    if a.tag == 'fin':
        return b
    if b.tag == 'fin':
        return a
    return a if a.tag == b.tag else NAN


def f_sub(a, b):
    return f_add(a, f_neg(b))


def f_sign(ctx, a):
    """-1, 0, 1 of a finite value (forks when symbolic)"""
    if isinstance(a.r, Fraction):
        return (a.r > 0) - (a.r < 0)
    if ctx.branch(z3real(a.r) > 0):
        return 1
    if ctx.branch(z3real(a.r) < 0):
        return -1
    return 0


def f_mul(ctx, a, b):
    if a.tag == 'nan' or b.tag == 'nan':
        return NAN
    if a.tag == 'fin' and b.tag == 'fin':
        return FV('fin', r_mul(a.r, b.r))
    sa = f_sign(ctx, a) if a.tag == 'fin' else (1 if a.tag == 'pinf' else -1)
    sb = f_sign(ctx, b) if b.tag == 'fin' else (1 if b.tag == 'pinf' else -1)
    s = sa * sb
    if s == 0:
        return NAN
    return PINF if s > 0 else NINF


def f_div(ctx, a, b):
    if a.tag == 'nan' or b.tag == 'nan':
        return NAN
    if a.tag != 'fin' and b.tag != 'fin':
        return NAN
    if b.tag != 'fin':
        return ZERO
    if a.tag != 'fin':
        sb = f_sign(ctx, b)
        sa = 1 if a.tag == 'pinf' else -1
        s = sa * (sb if sb != 0 else 1)  # x/0.0 with +0.0; sign of zero not modelled
        return PINF if s > 0 else NINF
    sb = f_sign(ctx, b) if not isinstance(b.r, Fraction) else ((b.r > 0) - (b.r < 0))
    if sb == 0:
        sa = f_sign(ctx, a)
        if sa == 0:
            return NAN
        return PINF if sa > 0 else NINF
    return FV('fin', r_div(a.r, b.r))


def f_abs(a):
    if a.tag == 'fin':
        if isinstance(a.r, Fraction):
            return FV('fin', abs(a.r))
        return FV('fin', z3.If(a.r >= 0, a.r, -a.r))
    return NAN if a.tag == 'nan' else PINF


def f_min(ctx, a, b):
    # Rust f64::min ignores NaN
    if a.tag == 'nan':
        return b
    if b.tag == 'nan':
        return a
    c = f_cmp('le', a, b)
    if isinstance(c, bool):
        return a if c else b
    return FV('fin', z3.If(c, z3real(a.r), z3real(b.r)))


def f_max(ctx, a, b):
    if a.tag == 'nan':
        return b
    if b.tag == 'nan':
        return a
    c = f_cmp('ge', a, b)
    if isinstance(c, bool):
        return a if c else b
    return FV('fin', z3.If(c, z3real(a.r), z3real(b.r)))


def f_floor(a):
    if a.tag != 'fin':
        return a
    if isinstance(a.r, Fraction):
        return FV('fin', Fraction(a.r.numerator // a.r.denominator))
    return FV('fin', z3.ToReal(z3.ToInt(a.r)))


def f_ceil(a):
    if a.tag != 'fin':
        return a
    if isinstance(a.r, Fraction):
        return FV('fin', Fraction(-((-a.r.numerator) // a.r.denominator)))
    return FV('fin', -z3.ToReal(z3.ToInt(-a.r)))


def f_powi(ctx, a, n):
    if not isinstance(n, int):
        raise Unsupported('powi with symbolic exponent')
    if n == 0:
        return ONE
    if n < 0:
        return f_div(ctx, ONE, f_powi(ctx, a, -n))
    res = a
    for _ in range(n - 1):
        res = f_mul(ctx, res, a)
    return res


# ----------------------------------------------------------------------------- type helpers

_lifetime_re = re.compile(r"'\w+\s*")


def norm_ty(t):
    t = _lifetime_re.sub('', t)
    t = re.sub(r'\s+', ' ', t).strip()
    return t


def strip_ref(t):
    t = t.strip()
    while True:
        if t.startswith('&mut '):
            t = t[5:]
        elif t.startswith('&'):
            t = t[1:].lstrip()
        else:
            return t


def ty_head(t):
    """type constructor without generic arguments and without path prefix"""
    t = strip_ref(norm_ty(t))
    if t.startswith('['):
        return 'slice'
    k = t.find('<')
    if k > 0:
        t = t[:k]
    if t.endswith('::'):
        t = t[:-2]
    return t.split('::')[-1]


def generic_args(t):
    """top-level generic arguments of a type string"""
    k = t.find('<')
    if k == -1 or not t.endswith('>'):
        return []
    return split_top(t[k + 1:-1])


# ----------------------------------------------------------------------------- the interpreter

class Frame:
    __slots__ = ('body', 'locals')


class Interp:
    def __init__(self, mir, layouts, ctx, srcroot='/repo', step_budget=400000):
        self.mir, self.layouts, self.ctx = mir, layouts, ctx
        self.srcroot = srcroot
        self.step_budget = step_budget
        self.steps = 0
        self.covered = {}     # body name -> sha
        self.model_hits = {}
        self.closures = {}
        self.closures_all = {}     # span -> every closure body printed with it (macro / derive output shares one span)
        for name, bs in mir.bodies.items():
            for b in bs:
                if '{closure#' in name.split('::')[-1]:
                    m = re.search(r'\{closure@[^}]*\}', b.param_tys[0] if b.param_tys else '')
                    if m:
                        self.closures[m.group(0)] = b
                        self.closures_all.setdefault(m.group(0), []).append(b)
        self._resolve_cache = {}
        self.self_stack = []
        self.tyenv = []
        self._generics_cache = {}
        self._span_cache = {}
        from . import models
        self.models = models.Models(self)
        self.depth = 0

    # ---------------------------------------------------------------- running bodies
    def reset_path(self):
        self.steps = 0

    def run_body(self, body, args):
        body.parse()
        self.covered[body.name] = body.sha
        nloc = max(list(body.local_tys.keys()) + [0]) + 1
        loc = [UNINIT] * nloc
        if len(args) != len(body.params):
            raise Inconclusive(f'arity mismatch calling {body.name}: {len(args)} vs {len(body.params)}')
        for p, a in zip(body.params, args):
            loc[p] = a
        if body.ret_ty == '()' or body.local_tys.get(0) == '()':
            loc[0] = UNIT
        bb = 0
        mir = self.mir
        while True:
            stmts = mir.parsed_block(body, bb)
            self.steps += len(stmts)
            if self.steps > self.step_budget:
                raise BudgetExceeded(body.name)
            nxt = None
            for st in stmts:
                k = st[0]
                if k == 'assign':
                    v = self.rvalue(body, loc, st[2])
                    self.place_ref(body, loc, st[1]).set(v)
                elif k == 'nop':
                    pass
                elif k == 'call':
                    _, dst, callee, args_, ret = st
                    argv = [self.operand(body, loc, a) for a in args_]
                    if re.match(r'(?:move|copy) \(?\*?_\d', callee):
                        # call through a local: fn pointer / closure value held in a variable
                        res = self.call_value(self.operand(body, loc, parse_operand(callee)), argv)
                    else:
                        res = self.call(callee, argv, body, loc)
                    if ret is None:
                        raise RustPanic(f'diverging call returned: {callee}')
                    self.place_ref(body, loc, dst).set(res)
                    nxt = ret
                elif k == 'goto':
                    nxt = st[1]
                elif k == 'switch':
                    v = self.operand(body, loc, st[1])
                    nxt = self.switch(v, st[2], st[3])
                elif k == 'return':
                    return loc[0]
                elif k == 'drop':
                    nxt = st[2]
                elif k == 'assert':
                    c = self.operand(body, loc, st[1])
                    if not isinstance(c, bool):
                        c = self.ctx.branch(c)
                    if c != st[2]:
                        raise RustPanic('assert failed: ' + st[3][:120])
                    nxt = st[4]
                elif k == 'unreachable':
                    raise Inconclusive('reached `unreachable` in ' + body.name)
                elif k == 'resume':
                    raise Inconclusive('reached cleanup in ' + body.name)
                else:
                    raise Unsupported('statement ' + k)
            if nxt is None:
                raise Inconclusive(f'block bb{bb} of {body.name} has no terminator')
            bb = nxt

    def switch(self, v, table, other):
        if isinstance(v, bool):
            v = int(v)
        if isinstance(v, Enum):
            v = v.discr
        if isinstance(v, int):
            return table.get(v, other)
        if isinstance(v, z3.BoolRef):
            t = self.ctx.branch(v)
            return table.get(int(t), other)
        if is_bv(v):
            for k, tgt in table.items():
                kk = k
                if self.ctx.branch(v == z3.BitVecVal(kk, v.size())):
                    return tgt
            return other
        raise Unsupported(f'switchInt on {type(v).__name__}')

    # ---------------------------------------------------------------- places
    def place_ref(self, body, loc, place):
        local, projs = place
        ref = Ref(loc, local)
        for p in projs:
            k = p[0]
            if k == 'deref':
                v = ref.get()
                if isinstance(v, Ref):
                    ref = v
                elif isinstance(v, (RVec, RString, RMap, Agg, Enum, RIter, SliceView, str, Closure)):
                    # Box<T>/Rc modelled transparently; &str / &[T] handled by models
                    ref = ref
                else:
                    raise Unsupported(f'deref of {type(v).__name__} in {body.name}')
            elif k == 'field':
                v = ref.get()
                if isinstance(v, (Agg, Enum)):
                    if p[1] >= len(v.f):
                        raise Inconclusive(f'field {p[1]} of {v!r} in {body.name}')
                    ref = Ref(v.f, p[1])
                elif isinstance(v, Closure):
                    ref = Ref(v.caps, p[1])
                else:
                    raise Unsupported(f'field projection on {type(v).__name__} ({v!r}) in {body.name}')
            elif k == 'downcast':
                v = ref.get()
                if isinstance(v, Enum) and v.vname != p[1] and not p[1].isdigit():
                    raise Inconclusive(f'downcast {p[1]} on {v!r} in {body.name}')
            elif k == 'index':
                v = ref.get()
                i = loc[p[1]]
                ref = self.index_ref(v, i)
            elif k == 'cindex':
                v = ref.get()
                items = v.items if isinstance(v, (RVec, SliceView)) else v.f
                i = len(items) - p[1] if p[2] else p[1]
                ref = self.index_ref(v, i)
            else:
                raise Unsupported('projection ' + k)
        return ref

    def index_ref(self, v, i):
        while isinstance(v, Ref):
            v = v.get()
        if not isinstance(i, int):
            raise Unsupported('symbolic index')
        if isinstance(v, RVec):
            if i >= len(v.items) or i < 0:
                raise RustPanic('index out of bounds')
            return Ref(v.items, i)
        if isinstance(v, SliceView):
            if i >= v.hi - v.lo or i < 0:
                raise RustPanic('index out of bounds')
            return Ref(v.vec.items, v.lo + i)
        if isinstance(v, Agg):
            return Ref(v.f, i)
        raise Unsupported(f'index into {type(v).__name__}')

    # ---------------------------------------------------------------- operands / rvalues
    def operand(self, body, loc, op):
        k = op[0]
        if k == 'copy':
            v = self.place_ref(body, loc, op[1]).get()
            if v is UNINIT:
                raise Inconclusive(f'read of uninitialised {op[1]} in {body.name}')
            return copy_val(v)
        if k == 'move':
            v = self.place_ref(body, loc, op[1]).get()
            if v is UNINIT:
                raise Inconclusive(f'read of uninitialised {op[1]} in {body.name}')
            return v
        if k == 'const':
            return self.const(body, op[1])
        if k == 'fnitem':
            return FnItem(self.subst(op[1]))
        raise Unsupported('operand ' + k)

    _int_const = re.compile(r'(-?[\d_]+)_(u8|u16|u32|u64|u128|usize|i8|i16|i32|i64|i128|isize)$')
    _flt_const = re.compile(r'(-?[\d_.]+(?:[eE][-+]?\d+)?|-?inf|NaN|-?NaN)f(64|32)$')

    def const(self, body, text):
        m = self._int_const.match(text)
        if m:
            return int(m.group(1).replace('_', ''))
        m = self._flt_const.match(text)
        if m:
            return f64_const(m.group(1))
        if text == 'true':
            return True
        if text == 'false':
            return False
        if text.startswith('"'):
            return bytes(text[1:-1], 'utf-8').decode('unicode_escape') if '\\' in text else text[1:-1]
        if text.startswith('b"'):
            return Opaque('bytes', text)
        if text in ('anyhow::kind::Trait', 'anyhow::kind::Adhoc', 'anyhow::kind::Boxed'):
            return Opaque('anyhow_kind')
        if text == 'log::STATIC_MAX_LEVEL':
            return Enum('LevelFilter', 5, 'Trace', [])
        if text.startswith('std::iter::Empty::<'):
            from .models import list_iter
            return list_iter([])
        if text.startswith("'"):
            s = text[1:-1]
            if s.startswith('\\'):
                s = bytes(s, 'utf-8').decode('unicode_escape')
            return ord(s)
        if text.startswith('ZeroSized: '):
            t = text[len('ZeroSized: '):]
            if t.startswith('{closure@'):
                return Closure(t, [], self.cur_env())
            return FnItem(self.subst(t))
        if text == '()' or text.startswith('(): ()'):
            return UNIT
        if text in STD_CONSTS:
            return STD_CONSTS[text]
        m = re.match(r'(?:core|std)::\w+::<impl (\w+)>::(\w+)$', text)
        if m and f'{m.group(1)}::{m.group(2)}' in STD_CONSTS:
            return STD_CONSTS[f'{m.group(1)}::{m.group(2)}']
        m = re.match(r'(.*)::promoted\[(\d+)\]$', text)
        if m:
            return self.promoted(body, int(m.group(2)))
        # named constant defined in the crate
        c = self.lookup_const(text)
        if c is not None:
            return c
        m = re.match(r'([\w:]+) \{\{\s*\}\}$', text)
        if m:
            # field-less struct constant, e.g. `v1::Unbounded {{  }}`
            return Agg([], m.group(1))
        # fieldless enum variant / unit struct constants are printed as paths
        v = self.models.adt(text, [])
        if v is not None:
            return v
        raise Unsupported('constant ' + text)

    def lookup_const(self, text):
        name = re.sub(r'::<.*?>', '', text)
        hits = [b for n, b in self.mir.consts.items() if n == name or n.endswith('::' + name) or name.endswith('::' + n)]
        if len(hits) != 1:
            return None
        b = hits[0]
        if b.const_value is not None:
            v = b.const_value
            if v.startswith('const '):
                v = v[6:]
            return self.const(b, v)
        return self.run_const_body(b)

    def run_const_body(self, b):
        # const bodies look like functions without parameters
        return self.run_body(b, [])

    def promoted(self, body, n):
        base = body.name
        base = re.sub(r'::\{closure#\d+\}.*$', lambda m: m.group(0), base)
        key = f'{base}::promoted[{n}]'
        b = self.mir.consts.get(key)
        if b is None:
            raise Unsupported('promoted const not found: ' + key)
        return self.run_body(b, [])

    def op_ty(self, body, op):
        """best-effort static type string of an operand"""
        k = op[0]
        if k == 'const':
            m = self._int_const.match(op[1])
            if m:
                return m.group(2)
            if self._flt_const.match(op[1]):
                return 'f64'
            if op[1] in ('true', 'false'):
                return 'bool'
            return None
        if k in ('copy', 'move'):
            local, projs = op[1]
            ty = body.local_tys.get(local)
            for p in projs:
                if ty is None:
                    break
                if p[0] == 'field':
                    ty = p[2]
                elif p[0] == 'deref':
                    t = ty.strip()
                    if t.startswith('&mut '):
                        ty = t[5:]
                    elif t.startswith('&'):
                        ty = _lifetime_re.sub('', t[1:]).strip()
                        if ty.startswith('mut '):
                            ty = ty[4:]
                    elif t.startswith(('std::boxed::Box<', 'Box<')):
                        ty = generic_args(t)[0]
                    else:
                        ty = None
                elif p[0] in ('index', 'cindex'):
                    t = ty.strip()
                    if t.startswith('['):
                        ty = t[1:-1].split(';')[0].strip()
                    else:
                        ga = generic_args(t)
                        ty = ga[0] if ga else None
                elif p[0] == 'downcast':
                    pass
            return ty
        return None

    def pick_closure(self, body, name, ops):
        """the closure body constructed here; None when its span identifies it (the common case)"""
        m = re.search(r'\{closure@[^}]*\}', name)
        cands = self.closures_all.get(m.group(0), []) if m else []
        if len(cands) <= 1:
            return None
        inside = [b for b in cands if b.name.startswith(body.name + '::{closure#')]
        if inside:
            cands = inside
        if len(cands) > 1:
            want = [self.op_ty(body, o) for o in ops]
            for i, o in enumerate(ops):
                mz = re.match(r'([\w:]+) \{\{\s*\}\}$', o[1]) if o[0] == 'const' and isinstance(o[1], str) else None
                if mz:
                    want[i] = 'zst:' + mz.group(1)
            keep = []
            for b in cands:
                zst = set(re.findall(r'=> const ([\w:]+) \{\{\s*\}\}', b.text))
                if any(w and w.startswith('zst:') and w[4:] not in zst for w in want) or \
                        zst - {w[4:] for w in want if w and w.startswith('zst:')}:
                    continue
                want_ = [None if w and w.startswith('zst:') else w for w in want]
                tys = {}
                for mm in re.finditer(r'\(_1\.(\d+): ', b.text):
                    j = mm.end()
                    depth, e = 1, j
                    while depth:
                        depth += {'(': 1, ')': -1}.get(b.text[e], 0)
                        e += 1
                    tys[int(mm.group(1))] = norm_ty(b.text[j:e - 1])
                if all(w is None or i not in tys or norm_ty(w) == tys[i] for i, w in enumerate(want_)):
                    keep.append(b)
            cands = keep
        if len(cands) != 1:
            raise Unsupported(f'closure {name} constructed in {body.name}: {len(cands)} candidate bodies share its span')
        return cands[0]

    def rvalue(self, body, loc, rv):
        k = rv[0]
        if k == 'use':
            return self.operand(body, loc, rv[1])
        if k == 'ref':
            return self.place_ref(body, loc, rv[2])
        if k == 'binop':
            a = self.operand(body, loc, rv[2])
            b = self.operand(body, loc, rv[3])
            ty = self.op_ty(body, rv[2]) or self.op_ty(body, rv[3])
            return self.binop(rv[1], a, b, ty)
        if k == 'unop':
            a = self.operand(body, loc, rv[2])
            return self.unop(rv[1], a, self.op_ty(body, rv[2]))
        if k == 'discr':
            v = self.place_ref(body, loc, rv[1]).get()
            if isinstance(v, Enum):
                return v.discr
            raise Unsupported(f'discriminant of {type(v).__name__} {v!r} in {body.name}')
        if k == 'tuple':
            return Agg([self.operand(body, loc, o) for o in rv[1]])
        if k == 'array':
            return RVec([self.operand(body, loc, o) for o in rv[1]])
        if k == 'repeat':
            v = self.operand(body, loc, rv[1])
            n = self.const(body, rv[2]) if not rv[2].isdigit() else int(rv[2])
            return RVec([copy_val(v) for _ in range(n)])
        if k == 'adt':
            ops = [self.operand(body, loc, o) for o in rv[2]]
            v = self.models.adt(rv[1], ops)
            if v is None:
                raise Unsupported('aggregate ' + rv[1])
            return v
        if k == 'closure':
            return Closure(rv[1], [self.operand(body, loc, o) for o in rv[2]], self.cur_env(), self.pick_closure(body, rv[1], rv[2]))
        if k == 'cast':
            v = self.operand(body, loc, rv[1])
            return self.cast(v, self.op_ty(body, rv[1]), rv[2], rv[3])
        if k == 'len':
            v = self.place_ref(body, loc, rv[1]).get()
            return len(v.items)
        raise Unsupported('rvalue ' + k)

    # ---------------------------------------------------------------- arithmetic
    def binop(self, op, a, b, ty):
        ctx = self.ctx
        if isinstance(a, FV) or isinstance(b, FV):
            if op == 'Add':
                return f_add(a, b)
            if op == 'Sub':
                return f_sub(a, b)
            if op == 'Mul':
                return f_mul(ctx, a, b)
            if op == 'Div':
                return f_div(ctx, a, b)
            if op in ('Eq', 'Ne', 'Lt', 'Le', 'Gt', 'Ge'):
                return f_cmp(op.lower(), a, b)
            raise Unsupported('float binop ' + op)
        if isinstance(a, Enum):
            a = a.discr
        if isinstance(b, Enum):
            b = b.discr
        if isinstance(a, (bool, z3.BoolRef)) or isinstance(b, (bool, z3.BoolRef)):
            if isinstance(a, bool) and isinstance(b, bool):
                return {'Eq': a == b, 'Ne': a != b, 'BitAnd': a and b, 'BitOr': a or b, 'BitXor': a != b,
                        'Lt': (not a) and b, 'Le': (not a) or b, 'Gt': a and not b, 'Ge': a or not b}[op]
            za, zb = z3bool(a), z3bool(b)
            if op == 'Eq':
                return za == zb
            if op in ('Ne', 'BitXor'):
                return z3.Xor(za, zb)
            if op == 'BitAnd':
                return b_and(a, b)
            if op == 'BitOr':
                return b_or(a, b)
            raise Unsupported('bool binop ' + op)
        signed, bits = INT_TYS.get(ty or 'u64', (False, 64))
        if isinstance(a, int) and isinstance(b, int):
            return self.int_binop_conc(op, a, b, signed, bits)
        # symbolic bit-vectors
        if isinstance(a, int):
            a = z3.BitVecVal(a, b.size())
        if isinstance(b, int):
            b = z3.BitVecVal(b, a.size())
        if not (is_bv(a) and is_bv(b)):
            raise Unsupported(f'binop {op} on {type(a).__name__},{type(b).__name__}')
        if a.size() != b.size():
            if op in ('Shl', 'Shr'):
                b = z3.ZeroExt(a.size() - b.size(), b) if b.size() < a.size() else z3.Extract(a.size() - 1, 0, b)
            else:
                raise Unsupported('bit-vector width mismatch')
        w = a.size()
        if op in ('Add', 'AddUnchecked'):
            return a + b
        if op in ('Sub', 'SubUnchecked'):
            return a - b
        if op in ('Mul', 'MulUnchecked'):
            return a * b
        if op == 'Eq':
            return a == b
        if op == 'Ne':
            return a != b
        if op == 'Lt':
            return (a < b) if signed else z3.ULT(a, b)
        if op == 'Le':
            return (a <= b) if signed else z3.ULE(a, b)
        if op == 'Gt':
            return (a > b) if signed else z3.UGT(a, b)
        if op == 'Ge':
            return (a >= b) if signed else z3.UGE(a, b)
        if op == 'BitAnd':
            return a & b
        if op == 'BitOr':
            return a | b
        if op == 'BitXor':
            return a ^ b
        if op == 'Div':
            return (a / b) if signed else z3.UDiv(a, b)
        if op == 'Rem':
            return z3.SRem(a, b) if signed else z3.URem(a, b)
        if op == 'Shl':
            return a << b
        if op == 'Shr':
            return (a >> b) if signed else z3.LShR(a, b)
        if op == 'AddWithOverflow':
            if signed:
                ovf = z3.Not(z3.And(z3.BVAddNoOverflow(a, b, True), z3.BVAddNoUnderflow(a, b)))
            else:
                ovf = z3.Not(z3.BVAddNoOverflow(a, b, False))
            return Agg([a + b, ovf])
        if op == 'SubWithOverflow':
            if signed:
                ovf = z3.Not(z3.And(z3.BVSubNoOverflow(a, b), z3.BVSubNoUnderflow(a, b, True)))
            else:
                ovf = z3.ULT(a, b)
            return Agg([a - b, ovf])
        if op == 'MulWithOverflow':
            ovf = z3.Not(z3.And(z3.BVMulNoOverflow(a, b, signed), z3.BVMulNoUnderflow(a, b))) if signed else \
                z3.Not(z3.BVMulNoOverflow(a, b, False))
            return Agg([a * b, ovf])
        raise Unsupported('bv binop ' + op)

    def int_binop_conc(self, op, a, b, signed, bits):
        lo = -(1 << (bits - 1)) if signed else 0
        hi = (1 << (bits - 1)) - 1 if signed else (1 << bits) - 1
        if op in ('Add', 'AddUnchecked'):
            return wrap_int(a + b, signed, bits)
        if op in ('Sub', 'SubUnchecked'):
            return wrap_int(a - b, signed, bits)
        if op in ('Mul', 'MulUnchecked'):
            return wrap_int(a * b, signed, bits)
        if op == 'AddWithOverflow':
            r = a + b
            return Agg([wrap_int(r, signed, bits), not (lo <= r <= hi)])
        if op == 'SubWithOverflow':
            r = a - b
            return Agg([wrap_int(r, signed, bits), not (lo <= r <= hi)])
        if op == 'MulWithOverflow':
            r = a * b
            return Agg([wrap_int(r, signed, bits), not (lo <= r <= hi)])
        if op == 'Eq':
            return a == b
        if op == 'Ne':
            return a != b
        if op == 'Lt':
            return a < b
        if op == 'Le':
            return a <= b
        if op == 'Gt':
            return a > b
        if op == 'Ge':
            return a >= b
        if op == 'BitAnd':
            return a & b
        if op == 'BitOr':
            return a | b
        if op == 'BitXor':
            return a ^ b
        if op == 'Div':
            if b == 0:
                raise RustPanic('division by zero')
            q = abs(a) // abs(b)
            return q if (a >= 0) == (b >= 0) else -q
        if op == 'Rem':
            if b == 0:
                raise RustPanic('remainder by zero')
            r = abs(a) % abs(b)
            return r if a >= 0 else -r
        if op in ('Shl', 'ShlUnchecked'):
            return wrap_int(a << b, signed, bits)
        if op in ('Shr', 'ShrUnchecked'):
            return a >> b
        if op == 'Cmp':
            return Enum('Ordering', (a > b) - (a < b), {-1: 'Less', 0: 'Equal', 1: 'Greater'}[(a > b) - (a < b)], [])
        raise Unsupported('int binop ' + op)

    def unop(self, op, a, ty):
        if op == 'Neg':
            if isinstance(a, FV):
                return f_neg(a)
            if isinstance(a, int):
                signed, bits = INT_TYS.get(ty or 'i64', (True, 64))
                return wrap_int(-a, signed, bits)
            return -a
        if op == 'Not':
            if isinstance(a, bool):
                return not a
            if isinstance(a, z3.BoolRef):
                return z3.Not(a)
            if isinstance(a, int):
                signed, bits = INT_TYS.get(ty or 'u64', (False, 64))
                return wrap_int(~a, signed, bits)
            return ~a
        if op == 'PtrMetadata':
            v = a
            while isinstance(v, Ref):
                v = v.get()
            if isinstance(v, (RVec, SliceView)):
                return len(v.items)
            if isinstance(v, (str, RString)):
                return len(v if isinstance(v, str) else v.s)
            return UNIT
        raise Unsupported('unop ' + op)

    def cast(self, v, src_ty, dst_ty, kind):
        dst_ty = dst_ty.strip()
        if kind.startswith('PointerCoercion') or kind in ('PtrToPtr', 'Transmute') and False:
            return v
        if kind.startswith('PointerCoercion'):
            return v
        if kind == 'IntToInt':
            if isinstance(v, Enum):
                v = v.discr
            if isinstance(v, bool):
                v = int(v)
            if isinstance(v, z3.BoolRef):
                signed, bits = INT_TYS[dst_ty]
                return z3.If(v, z3.BitVecVal(1, bits), z3.BitVecVal(0, bits))
            signed, bits = INT_TYS[dst_ty]
            if isinstance(v, int):
                return wrap_int(v, signed, bits)
            ssigned = INT_TYS.get(src_ty or '', (False, v.size()))[0]
            if bits == v.size():
                return v
            if bits < v.size():
                return z3.Extract(bits - 1, 0, v)
            return z3.SignExt(bits - v.size(), v) if ssigned else z3.ZeroExt(bits - v.size(), v)
        if kind == 'IntToFloat':
            if isinstance(v, bool):
                v = int(v)
            if isinstance(v, int):
                return fin(v)
            ssigned = INT_TYS.get(src_ty or '', (False, 64))[0]
            return FV('fin', z3.ToReal(z3.BV2Int(v, ssigned)))
        if kind == 'FloatToInt':
            signed, bits = INT_TYS[dst_ty]
            lo = -(1 << (bits - 1)) if signed else 0
            hi = (1 << (bits - 1)) - 1 if signed else (1 << bits) - 1
            if v.tag == 'nan':
                return 0
            if v.tag == 'pinf':
                return hi
            if v.tag == 'ninf':
                return lo
            if isinstance(v.r, Fraction):
                t = int(v.r)  # trunc toward zero
                return max(lo, min(hi, t))
            raise Unsupported('FloatToInt on symbolic value')
        if kind == 'FloatToFloat':
            return v
        if kind in ('PtrToPtr', 'Transmute', 'FnPtrToPtr'):
            return v
        raise Unsupported('cast ' + kind)

    # ---------------------------------------------------------------- calls
    # ---- generic type environments (MIR is pre-monomorphisation: bodies mention their type parameters by name)
    def cur_env(self):
        return self.tyenv[-1] if self.tyenv else None

    def subst(self, text):
        env = self.cur_env()
        if not env:
            return text
        return _subst_env(text, env)

    def declared_generics(self, body):
        """names of the type parameters declared on the fn item of a local body (read from the source)"""
        r = self._generics_cache.get(id(body))
        if r is not None:
            return r
        name = body.name.split('::')[-1]
        files = []
        if body.span:
            files = [os.path.join(self.srcroot, body.span[0])]
        else:
            for dp, dn, fn in os.walk(os.path.join(self.srcroot, 'rust', 'ommx', 'src')):
                files += [os.path.join(dp, f) for f in fn if f.endswith('.rs')]
        out = []
        for f in files:
            try:
                src = open(f).read()
            except OSError:
                continue
            m = re.search(r'\bfn\s+' + re.escape(name) + r'\s*<([^>(]*)>\s*\(', src)
            if m:
                for part in split_top(m.group(1)):
                    part = part.strip()
                    if part.startswith("'") or part.startswith('const '):
                        continue
                    out.append(part.split(':')[0].strip())
                break
        self._generics_cache[id(body)] = out
        return out

    def call(self, callee, argv, caller=None, loc=None):
        callee = self.subst(callee)
        target = self.resolve(callee, argv, caller)
        if target[0] == 'body':
            b = target[1]
            env = None
            parts = split_top(callee, '::')
            if parts and parts[-1].startswith('<') and not parts[-1].startswith('<impl'):
                names = self.declared_generics(b)
                args_ = [a for a in split_top(parts[-1][1:-1]) if not a.strip().startswith("'")]
                if names and len(names) <= len(args_):
                    # explicit generic arguments are printed after elided impl-trait ones; align from the front
                    env = dict(zip(names, [a.strip() for a in args_]))
            self.tyenv.append(env)
            try:
                if len(target) > 2:
                    # provided trait method: remember what `Self` is while its generic body runs
                    self.self_stack.append(target[2])
                    try:
                        return self.run_body(b, argv)
                    finally:
                        self.self_stack.pop()
                return self.run_body(b, argv)
            finally:
                self.tyenv.pop()
        # library model
        return self.models.call(target[1], callee, argv, caller)

    def call_value(self, f, args):
        """call a closure / fn item value with a python list of arguments"""
        while isinstance(f, Ref):
            f = f.get()
        if isinstance(f, Closure):
            b = f.body or self.closures.get(re.search(r'\{closure@[^}]*\}', f.name).group(0))
            if b is None:
                raise Unsupported('closure body not found: ' + f.name)
            first = b.param_tys[0].strip()
            selfarg = ref_to(f) if first.startswith('&') else f
            self.tyenv.append(f.env)
            try:
                return self.run_body(b, [selfarg] + list(args))
            finally:
                self.tyenv.pop()
        if isinstance(f, FnItem):
            return self.call(f.path, list(args), None)
        if callable(f):
            return f(*args)
        raise Unsupported(f'call of {type(f).__name__}')

    def resolve(self, callee, argv, caller):
        from .resolve import resolve_callee
        return resolve_callee(self, callee, argv, caller)


STD_CONSTS = {
    'f64::EPSILON': FV('fin', Fraction(2.220446049250313e-16)),
    'std::f64::EPSILON': FV('fin', Fraction(2.220446049250313e-16)),
    'f64::INFINITY': PINF, 'f64::NEG_INFINITY': NINF, 'f64::NAN': NAN,
    'std::f64::INFINITY': PINF, 'std::f64::NEG_INFINITY': NINF, 'std::f64::NAN': NAN,
    'f64::MAX': FV('fin', Fraction(1.7976931348623157e308)), 'f64::MIN': FV('fin', Fraction(-1.7976931348623157e308)),
    'u64::MAX': (1 << 64) - 1, 'usize::MAX': (1 << 64) - 1, 'i64::MAX': (1 << 63) - 1, 'i64::MIN': -(1 << 63),
    'u32::MAX': (1 << 32) - 1, 'i32::MAX': (1 << 31) - 1, 'i32::MIN': -(1 << 31),
    'u64::MIN': 0, 'usize::MIN': 0,
}
