"""Harness helpers: engine set-up, builders for ommx messages, readers for results."""
import os, re, subprocess, time, hashlib, json
from fractions import Fraction
import z3

from . import mirparse, layout
from .values import *
from .interp import Interp, Ctx, explore, deep_clone, Infeasible, norm_ty
from .models import deref, drain

VERIF = os.path.dirname(os.path.dirname(os.path.abspath(__file__)))
# Development aid (never used by the registered commands): VERIF_ALT=<path of another checkout of the repository> runs a check against
# that checkout with its own cache and evidence directory, so a seeded change can be evaluated while other checks use /repo.
ALT = os.environ.get('VERIF_ALT')
CACHE = os.path.join(VERIF, '.cache', 'alt-' + hashlib.sha256(ALT.encode()).hexdigest()[:8]) if ALT else os.path.join(VERIF, '.cache')
REPO = ALT or os.environ.get('VERIF_REPO', '/repo')
CRATE = os.path.join(REPO, 'rust', 'ommx')


def dump_mir(force=True):
    """regenerate the MIR dump from /repo's current working tree (only dependency artefacts are cached)"""
    os.makedirs(CACHE, exist_ok=True)
    out = os.path.join(CACHE, 'ommx.mir')
    stamp = os.path.join(CACHE, 'ommx.mir.stamp')
    h = hashlib.sha256()
    for dp, dn, fn in sorted(os.walk(os.path.join(CRATE, 'src'))):
        for f in sorted(fn):
            p = os.path.join(dp, f)
            h.update(p.encode())
            h.update(open(p, 'rb').read())
    for extra in ('Cargo.toml', 'build.rs'):
        p = os.path.join(CRATE, extra)
        if os.path.exists(p):
            h.update(open(p, 'rb').read())
    digest = h.hexdigest()
    if os.path.exists(out) and os.path.exists(stamp) and open(stamp).read() == digest and os.path.getsize(out) > 1000:
        return out, digest, 0.0
    t = time.time()
    env = dict(os.environ, CARGO_NET_OFFLINE='true', CARGO_TARGET_DIR=os.path.join(CACHE, 'mir-target'))
    env.pop('RUSTFLAGS', None)
    libpath = os.path.join(CRATE, 'src', 'lib.rs')
    st = os.stat(libpath)
    os.utime(libpath, None)
    try:
        with open(out + '.tmp', 'w') as fo:
            p = subprocess.run(['cargo', '+nightly', 'rustc', '--offline', '--lib', '--', '-Zunpretty=mir',
                                '-C', 'debug-assertions=off', '-C', 'overflow-checks=on'],
                               cwd=CRATE, env=env, stdout=fo, stderr=subprocess.PIPE, text=True)
    finally:
        os.utime(libpath, (st.st_atime, st.st_mtime))
    if p.returncode != 0 or os.path.getsize(out + '.tmp') < 1000:
        raise Inconclusive('MIR dump failed:\n' + p.stderr[-3000:])
    os.replace(out + '.tmp', out)
    open(stamp, 'w').write(digest)
    return out, digest, time.time() - t


class Engine:
    """one loaded MIR + layouts; creates interpreters per exploration"""

    def __init__(self, mir_path=None):
        if mir_path is None:
            mir_path, self.src_digest, self.dump_s = dump_mir()
        else:
            self.src_digest, self.dump_s = None, 0.0
        self.mir = mirparse.load(mir_path)
        self.layouts = layout.Layouts(os.path.join(CRATE, 'src'))
        self._printed = None
        self.covered = {}
        self.model_hits = {}
        self.paths = 0
        self.queries = 0
        self.solver_time = 0.0

    # name printing ---------------------------------------------------------
    def printed(self, full):
        """the (trimmed) name rustc prints for the type with this full path"""
        if self._printed is None:
            toks = set()
            for name, bs in self.mir.bodies.items():
                for b in bs:
                    for t in re.findall(r'[A-Za-z_][\w]*(?:::[A-Za-z_]\w*)*', b.header):
                        toks.add(t)
            self._toks = toks
            self._printed = {}
        r = self._printed.get(full)
        if r is None:
            segs = full.split('::')
            r = full
            for k in range(len(segs) - 1, -1, -1):
                cand = '::'.join(segs[k:])
                if cand in self._toks:
                    # the shortest suffix that is printed somewhere and denotes this type unambiguously
                    others = [p for p in list(self.layouts.structs) + list(self.layouts.enums)
                              if p != full and (p == cand or p.endswith('::' + cand))]
                    if not others:
                        r = cand
                        break
            self._printed[full] = r
        return r

    def interp(self, ctx, **kw):
        it = Interp(self.mir, self.layouts, ctx, srcroot=REPO, **kw)
        it.covered = self.covered
        it.model_hits = self.model_hits
        return it

    # builders --------------------------------------------------------------
    def struct(self, full, **fields):
        sd = self.layouts.structs[full]
        vals = []
        for f in sd.fields:
            if f not in fields:
                raise KeyError(f'{full}: missing field {f}')
            vals.append(fields[f])
        extra = set(fields) - set(sd.fields)
        if extra:
            raise KeyError(f'{full}: unknown fields {extra}')
        return Agg(vals, self.printed(full))

    def variant(self, full_enum, vname, *payload):
        ed = self.layouts.enums[full_enum]
        v = ed.by_name[vname]
        return Enum(self.printed(full_enum), v[1], vname, list(payload))

    def field(self, agg, full, name):
        sd = self.layouts.structs[full]
        return deref(agg).f[sd.index(name)]

    def setfield(self, agg, full, name, v):
        sd = self.layouts.structs[full]
        deref(agg).f[sd.index(name)] = v

    def body(self, name_prefix):
        hits = [b for n, bs in self.mir.bodies.items() for b in bs if n.startswith(name_prefix)]
        return hits

    def find_body(self, pred):
        hits = [b for n, bs in self.mir.bodies.items() for b in bs if pred(b)]
        if len(hits) != 1:
            raise Inconclusive(f'expected exactly one body, got {len(hits)}: ' + ', '.join(b.name for b in hits[:5]))
        return hits[0]

    def method(self, method, first_param=None, ret=None, nparams=None, module=None):
        """find a local body by method name and signature fragments (printed types)"""
        def pred(b):
            if b.name.split('::')[-1] != method:
                return False
            if module is not None and not b.name.startswith(module):
                return False
            if nparams is not None and len(b.params) != nparams:
                return False
            if first_param is not None and (not b.param_tys or norm_ty(b.param_tys[0]) != first_param):
                return False
            if ret is not None and norm_ty(b.ret_ty) != ret:
                return False
            return True
        return self.find_body(pred)


# ----------------------------------------------------------------------------- message builders

class Msg:
    """builders for ommx.v1 messages in the interpreter's value representation"""

    def __init__(self, eng):
        self.e = eng

    def opt(self, v):
        return NONE() if v is None else Some(v)

    def term(self, id, coef):
        return self.e.struct('v1::linear::Term', id=id, coefficient=coef)

    def linear(self, terms, constant):
        return self.e.struct('v1::Linear', terms=RVec([self.term(i, c) for i, c in terms]), constant=constant)

    def quadratic(self, entries, linear=None):
        return self.e.struct('v1::Quadratic', rows=RVec([r for r, c, v in entries]), columns=RVec([c for r, c, v in entries]),
                             values=RVec([v for r, c, v in entries]), linear=self.opt(linear))

    def monomial(self, ids, coef):
        return self.e.struct('v1::Monomial', ids=RVec(list(ids)), coefficient=coef)

    def polynomial(self, monos):
        return self.e.struct('v1::Polynomial', terms=RVec([self.monomial(ids, c) for ids, c in monos]))

    def function(self, arm=None, payload=None):
        if arm is None:
            inner = NONE()
        else:
            inner = Some(self.e.variant('v1::function::Function', arm, payload))
        return self.e.struct('v1::Function', function=inner)

    def state(self, entries):
        return self.e.struct('v1::State', entries=RMap('hash', False, [[k, v] for k, v in entries]))


# ----------------------------------------------------------------------------- readers

def rd_vec(v):
    return list(deref(v).items)


def rd_set(v):
    return [e[0] for e in deref(v).entries]


def rd_map(v):
    return [(e[0], e[1]) for e in deref(v).entries]


def model_val(model, x):
    """concrete python value of a symbolic scalar under a z3 model"""
    if isinstance(x, FV):
        if x.tag != 'fin':
            return x.tag
        if isinstance(x.r, Fraction):
            return x.r
        v = model.eval(x.r, model_completion=True)
        return Fraction(v.numerator_as_long(), v.denominator_as_long()) if z3.is_rational_value(v) else str(v)
    if isinstance(x, (int, bool, str)):
        return x
    if is_bvv(x):
        return model.eval(x, model_completion=True).as_long()
    if isinstance(x, z3.BoolRef):
        return z3.is_true(model.eval(x, model_completion=True))
    if isinstance(x, z3.ArithRef):
        v = model.eval(x, model_completion=True)
        if z3.is_int_value(v):
            return v.as_long()
        return Fraction(v.numerator_as_long(), v.denominator_as_long())
    return x


def is_bvv(x):
    return isinstance(x, z3.BitVecRef)
