"""Library models: the trusted base of Engine M.

Every call that leaves the crate (std, anyhow, itertools, num, ordered_float, log, ...) lands here.
An unmodelled callee raises Inconclusive; it never passes silently.
"""
import re, itertools
from fractions import Fraction
import z3

from .values import *
from .interp import (deep_clone, copy_val, val_eq, val_lt, scalar_eq, f_cmp, f_add, f_sub, f_mul, f_div, f_neg, f_abs,
                     f_min, f_max, f_floor, f_ceil, f_powi, norm_ty, strip_ref, ty_head, generic_args, is_bv, INT_TYS,
                     wrap_int, Infeasible, int_lt)
from .mirparse import split_top
from .resolve import parse_callee


def records_eq(a, b):
    """byte equality of two record sequences (bool | z3 Bool): the byte-level coding of a record is injective"""
    if len(a) != len(b):
        return False
    out = []
    for x, y in zip(a, b):
        if x[0] != y[0] or x[1] != y[1] or x[2] != y[2]:
            return False
        if x[2] in ('message', 'map-entry'):
            out.append(records_eq(x[3], y[3]))
        elif x[2].startswith('packed-'):
            if len(x[3]) != len(y[3]):
                return False
            out += [val_eq(p, q) for p, q in zip(x[3], y[3])]
        else:
            out.append(val_eq(x[3], y[3]))
    return b_and(*out)


class WireBuf:
    """abstract protobuf wire buffer: a sequence of (field number, wire type, kind, payload) records"""

    def __init__(self, records=None):
        self.records = records if records is not None else []
        self.pos = 0
        self.skipped = []


def merge_scalars(conds, vals):
    """ite-merge of scalar values under pairwise exclusive conditions (None if not mergeable)"""
    if not vals:
        return None
    if all(isinstance(v, FV) and v.tag == 'fin' for v in vals):
        e = z3real(vals[-1].r)
        for cd, v in reversed(list(zip(conds[:-1], vals[:-1]))):
            e = z3.If(cd, z3real(v.r), e)
        return FV('fin', e)
    if all(isinstance(v, int) and not isinstance(v, bool) or is_bv(v) for v in vals):
        w = 64
        for v in vals:
            if is_bv(v):
                w = v.size()
        zs = [z3.BitVecVal(v, w) if isinstance(v, int) else v for v in vals]
        e = zs[-1]
        for cd, v in reversed(list(zip(conds[:-1], zs[:-1]))):
            e = z3.If(cd, v, e)
        return e
    if all(isinstance(v, (bool, z3.BoolRef)) for v in vals):
        e = z3bool(vals[-1])
        for cd, v in reversed(list(zip(conds[:-1], vals[:-1]))):
            e = z3.If(cd, z3bool(v), e)
        return e
    return None


def deref(v):
    while isinstance(v, Ref):
        v = v.get()
    return v


def items_of(v):
    v = deref(v)
    if isinstance(v, (RVec, SliceView)):
        return v
    if isinstance(v, Agg) and v.ty in ('SortedIds', 'sorted_ids::SortedIds'):
        return deref(v.f[0])
    raise Unsupported(f'expected slice/vec, got {type(v).__name__} {v!r}')


def list_iter(elems):
    it = iter(elems)

    def nxt():
        for x in it:
            return x
        return DONE
    return RIter(nxt, kind='list')


def ref_iter(container):
    """iterate &T over an RVec / SliceView (live view: sees the list as it is when next() is called)"""
    if isinstance(container, SliceView):
        vec, lo, hi = container.vec, container.lo, container.hi
    else:
        vec, lo, hi = container, 0, None
    state = [lo]

    def nxt():
        end = hi if hi is not None else len(vec.items)
        if state[0] < end:
            i = state[0]
            state[0] += 1
            return Ref(vec.items, i)
        return DONE
    r = RIter(nxt, kind='slice')
    r.hint = (vec, state, hi)
    return r


def drain(it):
    out = []
    while True:
        x = it.nxt()
        if x is DONE:
            return out
        out.append(x)


def opt(x):
    return NONE() if x is DONE else Some(x)


class Models:
    def __init__(self, interp):
        self.it = interp
        self.table = {}
        for name in dir(self):
            if name.startswith('m_') and getattr(self, name) is not None:
                self.table[name[2:].replace('__', '::')] = getattr(self, name)
        for kind in self.SCALAR_WT:
            self.table[f'{kind}::encode'] = self._wire_encode
            self.table[f'{kind}::encode_packed'] = self._wire_encode_packed
            self.table[f'{kind}::encode_repeated'] = self._wire_encode_repeated
            self.table[f'{kind}::encoded_len'] = self._wire_len
            self.table[f'{kind}::encoded_len_packed'] = self._wire_len
            self.table[f'{kind}::encoded_len_repeated'] = self._wire_len
            self.table[f'{kind}::merge'] = self._wire_merge
            self.table[f'{kind}::merge_repeated'] = self._wire_merge_repeated
        self.table['__private::not'] = self.p_not
        self.table['__private::format_err'] = self.p_format_err
        self.table['BothDebug::__dispatch_ensure'] = self.p_dispatch_ensure
        self.table['NotBothDebug::__dispatch_ensure'] = self.p_dispatch_ensure
        self.table['__private_api::log'] = lambda c, *a: UNIT
        self.table['__private_api::loc'] = lambda c, *a: Opaque('loc')
        self.table['__private_api::enabled'] = lambda c, *a: False

    @property
    def ctx(self):
        return self.it.ctx

    # ------------------------------------------------------------------ aggregates
    STD_ENUMS = {
        'Option': {'None': 0, 'Some': 1}, 'Result': {'Ok': 0, 'Err': 1},
        'ControlFlow': {'Continue': 0, 'Break': 1}, 'Cow': {'Borrowed': 0, 'Owned': 1},
        'Ordering': {'Less': -1, 'Equal': 0, 'Greater': 1},
        'Level': {'Error': 1, 'Warn': 2, 'Info': 3, 'Debug': 4, 'Trace': 5},
        'LevelFilter': {'Off': 0, 'Error': 1, 'Warn': 2, 'Info': 3, 'Debug': 4, 'Trace': 5},
        # oci_spec::image::MediaType (external): only the open variant is constructed by the crate
        'MediaType': {'Other': 15},
        # chrono::SecondsFormat (external)
        'SecondsFormat': {'Secs': 0, 'Millis': 1, 'Micros': 2, 'Nanos': 3, 'AutoSi': 4},
    }

    def adt(self, path, ops):
        # generic arguments are stripped with a proper bracket scan (they may contain fn-pointer types, closures and `<impl ..>` paths)
        p = self._strip_generics(path) if '<' in path else path
        segs = p.split('::')
        if len(segs) >= 2 and segs[-2] in self.STD_ENUMS and segs[-1] in self.STD_ENUMS[segs[-2]]:
            return Enum(segs[-2], self.STD_ENUMS[segs[-2]][segs[-1]], segs[-1], list(ops))
        if len(segs) == 1 and not ops:
            # rustc prints some external field-less variants by their bare name (e.g. chrono's `Micros`)
            owners = [en for en, vs in self.STD_ENUMS.items() if segs[0] in vs and en in ('SecondsFormat', 'Ordering')]
            if len(owners) == 1:
                return Enum(owners[0], self.STD_ENUMS[owners[0]][segs[0]], segs[0], [])
        L = self.it.layouts
        if len(segs) >= 2:
            e = L.enum('::'.join(segs[:-1]))
            if e is not None and segs[-1] in e.by_name:
                v = e.by_name[segs[-1]]
                return Enum('::'.join(segs[:-1]), v[1], v[0], list(ops))
        s = L.struct(p)
        if s is not None:
            return Agg(list(ops), p)
        if segs[-1] == 'RangeFull':
            return Agg([], 'RangeFull')
        if segs[-1] in ('Local', 'Utc') and not ops:
            return Agg([], segs[-1])        # chrono time-zone markers
        if segs[-1] in ('RangeFrom', 'RangeTo') and len(ops) == 1:
            return Agg(list(ops), segs[-1])
        if p in ('std::ops::Range', 'std::ops::RangeInclusive', 'Range', 'RangeInclusive'):
            return Agg(list(ops), segs[-1])
        if segs[-1] in ('OrderedFloat', 'NotNan', 'Reverse', 'Wrapping', 'PhantomData'):
            return Agg(list(ops), segs[-1])
        return None

    @staticmethod
    def _strip_generics(path):
        out, d = [], 0
        i = 0
        while i < len(path):
            ch = path[i]
            if ch == '<':
                d += 1
                if out[-2:] == [':', ':']:
                    out = out[:-2]
            elif ch == '>' and not (i and path[i - 1] in '-='):
                d -= 1
            elif d == 0:
                out.append(ch)
            i += 1
        return ''.join(out)

    # ------------------------------------------------------------------ dispatch
    def call(self, key, callee, argv, caller):
        self.it.model_hits[key] = self.it.model_hits.get(key, 0) + 1
        f = self.table.get(key)
        if f is None:
            k2 = key
            # slices print as `[T]::method`
            m = re.match(r'.*\]::(\w+)$', key)
            if m:
                k2 = 'slice::' + m.group(1)
            elif key.split('::')[0] in INT_TYS and key.split('::')[0] not in ('bool', 'char'):
                k2 = 'int::' + key.split('::', 1)[1]
            f = self.table.get(k2)
        if f is None:
            # tuple-struct constructor / enum variant used as a function
            v = self.adt(self._strip_generics(callee), argv)
            if v is not None:
                return v
            raise Unsupported(f'no library model for `{key}` ({callee[:160]})')
        self.cur_callee = callee
        return f(callee, *argv)

    def call_closure(self, f, *args):
        return self.it.call_value(f, list(args))

    # ------------------------------------------------------------------ map helpers
    def map_find(self, m, key):
        """index of the entry whose key equals `key`, or -1 (forks when symbolic)"""
        key = deref(key)
        if m.kind == 'btree' and m.entries and self.user_ord(key, m.entries[0][0]) is not None:
            # BTree* lookup is by `Ord::cmp(..) == Equal` of the key type's own impl
            for i, e in enumerate(m.entries):
                if self.user_ord(key, e[0]) == 0:
                    return i
            return -1
        conds = [val_eq(key, e[0]) for e in m.entries]
        if all(isinstance(c, bool) for c in conds):
            for i, c in enumerate(conds):
                if c:
                    return i
            return -1
        alts = [z3bool(c) for c in conds]
        none = z3.And(*[z3.Not(a) for a in alts]) if alts else z3.BoolVal(True)
        d = self.ctx.choose(len(alts) + 1, alts + [none])
        return d if d < len(alts) else -1

    def map_insert_pos(self, m, key):
        """position for a new key (not present) in a BTree* association list"""
        if m.kind != 'btree':
            return len(m.entries)
        n = len(m.entries)
        if n == 0:
            return 0
        lts = [self.key_lt(key, e[0]) for e in m.entries]   # key < k_i
        if all(isinstance(c, bool) for c in lts):
            for i, c in enumerate(lts):
                if c:
                    return i
            return n
        conds = []
        for i in range(n + 1):
            c = []
            if i > 0:
                c.append(b_not(lts[i - 1]))
            if i < n:
                c.append(lts[i])
            conds.append(z3bool(b_and(*c)))
        return self.ctx.choose(n + 1, conds)

    def user_ord(self, a, b):
        """Ordering discriminant (-1/0/1) from the crate's own `Ord::cmp` body when the key type has one in the
        MIR (hand-written or derived), else None. BTree* containers keyed by ommx types are ordered and
        de-duplicated by that body, not by a structural stand-in."""
        a, b = deref(a), deref(b)
        if not (isinstance(a, Agg) and a.ty and isinstance(b, Agg)):
            return None
        cache = self.__dict__.setdefault('_user_ord_cache', {})
        has = cache.get(a.ty)
        callee = f'<{a.ty} as Ord>::cmp'
        if has is None:
            try:
                has = self.it.resolve(callee, [ref_to(a), ref_to(b)], None)[0] == 'body'
            except Exception:
                has = False
            cache[a.ty] = has
        if not has:
            return None
        r = self.it.call(callee, [ref_to(a), ref_to(b)], None)
        return deref(r).discr

    def key_lt(self, a, b):
        a, b = deref(a), deref(b)
        o = self.user_ord(a, b)
        if o is not None:
            return o < 0
        return val_lt(a, b)

    def _inner_seq(self, a):
        inner = deref(a.f[0])
        if isinstance(inner, RMap):
            return [e[0] for e in inner.entries]
        return list(inner.items)

    def map_insert(self, m, key, val):
        """returns old value or None"""
        i = self.map_find(m, key)
        if i >= 0:
            old = m.entries[i][1]
            m.entries[i][1] = val
            return old
        p = self.map_insert_pos(m, key)
        m.entries.insert(p, [key, val])
        return None

    def map_iter_order(self, m):
        """list of entries in iteration order"""
        ents = list(m.entries)
        if m.kind == 'btree' or len(ents) < 2 or self.ctx.hash_order == 'canonical':
            return ents
        out = []
        rem = ents
        while len(rem) > 1:
            i = self.ctx.choose(len(rem))
            out.append(rem[i])
            rem = rem[:i] + rem[i + 1:]
        out.extend(rem)
        return out

    # ------------------------------------------------------------------ Vec / slices
    def m_Vec__new(self, c):
        return RVec([])

    def m_Vec__with_capacity(self, c, n):
        return RVec([])

    def m_Vec__len(self, c, v):
        return len(items_of(v).items)

    def m_Vec__is_empty(self, c, v):
        return len(items_of(v).items) == 0

    def m_Vec__push(self, c, v, x):
        deref(v).items.append(x)
        return UNIT

    def m_Vec__pop(self, c, v):
        it = deref(v).items
        return Some(it.pop()) if it else NONE()

    def m_Vec__clear(self, c, v):
        deref(v).items.clear()
        return UNIT

    def m_Vec__append(self, c, v, w):
        a, b = deref(v), deref(w)
        a.items.extend(b.items)
        b.items.clear()
        return UNIT

    def m_Vec__insert(self, c, v, i, x):
        it = deref(v).items
        if i > len(it):
            raise RustPanic('Vec::insert index out of bounds')
        it.insert(i, x)
        return UNIT

    def m_Vec__remove(self, c, v, i):
        it = deref(v).items
        if not isinstance(i, int):
            raise Unsupported('symbolic index')
        if i >= len(it):
            raise RustPanic('Vec::remove index out of bounds')
        return it.pop(i)

    def m_Vec__swap_remove(self, c, v, i):
        it = deref(v).items
        if i >= len(it):
            raise RustPanic('swap_remove index out of bounds')
        x = it[i]
        last = it.pop()
        if i < len(it):
            it[i] = last
        return x

    def m_Vec__retain(self, c, v, f):
        vec = deref(v)
        keep = []
        for i in range(len(vec.items)):
            r = self.call_closure(f, Ref(vec.items, i))
            if self.ctx.branch(r):
                keep.append(vec.items[i])
        vec.items[:] = keep
        return UNIT

    def m_Vec__dedup(self, c, v):
        vec = deref(v)
        out = []
        for x in vec.items:
            if out and self.ctx.branch(val_eq(out[-1], x)):
                continue
            out.append(x)
        vec.items[:] = out
        return UNIT

    def m_Vec__as_slice(self, c, v):
        return v

    def m_Vec__extend_from_slice(self, c, v, s):
        deref(v).items.extend(copy_val(x) for x in items_of(s).items)
        return UNIT

    def m_Vec__iter(self, c, v):
        return ref_iter(items_of(v))

    def m_vec__from_elem(self, c, x, n):
        return RVec([deep_clone(x) for _ in range(n)])

    def m_slice__iter(self, c, v):
        return ref_iter(items_of(v))

    def m_slice__iter_mut(self, c, v):
        return ref_iter(items_of(v))

    def m_slice__len(self, c, v):
        return len(items_of(v).items)

    def m_slice__is_empty(self, c, v):
        return len(items_of(v).items) == 0

    def m_slice__last(self, c, v):
        s = items_of(v)
        n = len(s.items)
        return Some(self.it.index_ref(s, n - 1)) if n else NONE()

    def m_slice__first(self, c, v):
        s = items_of(v)
        return Some(self.it.index_ref(s, 0)) if len(s.items) else NONE()

    def m_slice__get(self, c, v, i):
        s = items_of(v)
        if not isinstance(i, int):
            raise Unsupported('symbolic slice index')
        return Some(self.it.index_ref(s, i)) if 0 <= i < len(s.items) else NONE()

    def m_slice__contains(self, c, v, x):
        return b_or(*[val_eq(y, x) for y in items_of(v).items])

    def _binary_search_by(self, items, cmp):
        """core::slice::binary_search_by as implemented in std (1.82+): no early exit on Equal"""
        size = len(items)
        if size == 0:
            return Err(0)
        base = 0
        while size > 1:
            half = size // 2
            mid = base + half
            o = cmp(items[mid])
            base = base if o == 1 else mid
            size -= half
        o = cmp(items[base])
        if o == 0:
            return Ok(base)
        return Err(base + (1 if o == -1 else 0))

    def m_slice__binary_search(self, c, v, x):
        s = items_of(v)
        x = deref(x)

        def cmp(e):
            e = deref(e)
            if self.ctx.branch(val_lt(e, x)):
                return -1
            if self.ctx.branch(val_eq(e, x)):
                return 0
            return 1
        return self._binary_search_by(list(s.items), cmp)

    def m_slice__binary_search_by(self, c, v, f):
        s = items_of(v)
        vec = s.vec if isinstance(s, SliceView) else s
        off = s.lo if isinstance(s, SliceView) else 0
        n = len(s.items)
        return self._binary_search_by([Ref(vec.items, off + i) for i in range(n)], lambda r: self.call_closure(f, r).discr)

    def m_slice__binary_search_by_key(self, c, v, key, f):
        s = items_of(v)
        vec = s.vec if isinstance(s, SliceView) else s
        off = s.lo if isinstance(s, SliceView) else 0
        key = deref(key)

        def cmp(r):
            k = self.call_closure(f, r)
            if self.ctx.branch(val_lt(k, key)):
                return -1
            if self.ctx.branch(val_eq(k, key)):
                return 0
            return 1
        return self._binary_search_by([Ref(vec.items, off + i) for i in range(len(s.items))], cmp)

    def m_slice__swap(self, c, v, i, j):
        s = items_of(v)
        vec = s.vec if isinstance(s, SliceView) else s
        off = s.lo if isinstance(s, SliceView) else 0
        if i >= len(s.items) or j >= len(s.items):
            raise RustPanic('swap index out of bounds')
        vec.items[off + i], vec.items[off + j] = vec.items[off + j], vec.items[off + i]
        return UNIT

    def m_slice__reverse(self, c, v):
        s = items_of(v)
        if isinstance(s, SliceView):
            s.vec.items[s.lo:s.hi] = list(reversed(s.items))
        else:
            s.items.reverse()
        return UNIT

    def m_slice__starts_with(self, c, v, p):
        a, b = items_of(v).items, items_of(p).items
        if len(b) > len(a):
            return False
        return b_and(*[val_eq(x, y) for x, y in zip(a, b)])

    def m_slice__concat(self, c, v):
        out = []
        for x in items_of(v).items:
            out.extend(items_of(x).items)
        return RVec(out)

    def m_Vec__truncate(self, c, v, n):
        del deref(v).items[n:]
        return UNIT

    def m_Vec__drain(self, c, v, rng):
        vec = deref(v)
        rng = deref(rng)
        if rng.ty == 'RangeFull':
            lo, hi = 0, len(vec.items)
        else:
            lo, hi = rng.f[0], rng.f[1]
        out = vec.items[lo:hi]
        del vec.items[lo:hi]
        return list_iter(out)

    def m_Vec__first(self, c, v):
        return self.m_slice__first(c, v)

    def m_Vec__last(self, c, v):
        return self.m_slice__last(c, v)

    def m_Vec__contains(self, c, v, x):
        return self.m_slice__contains(c, v, x)

    def m_Vec__sort(self, c, v):
        return self.m_slice__sort_unstable(c, v)

    m_Vec__sort_unstable = m_Vec__sort

    def m_Vec__reverse(self, c, v):
        return self.m_slice__reverse(c, v)

    def m_Vec__extend(self, c, v, src):
        return self.m_Extend__extend(c, v, src)

    def m_Vec__get(self, c, v, i):
        return self.m_slice__get(c, v, i)

    def m_slice__to_vec(self, c, v):
        return RVec([deep_clone(x) for x in items_of(v).items])

    def m_slice__chunks(self, c, v, n):
        s = items_of(v)
        base = s.vec if isinstance(s, SliceView) else s
        lo = s.lo if isinstance(s, SliceView) else 0
        total = len(s.items)
        chunks = [ref_to(SliceView(base, lo + i, lo + min(i + n, total))) for i in range(0, total, n)]
        return list_iter([ch.get() for ch in chunks])

    def sort_scalars(self, xs):
        """sort a list of (possibly symbolic) unsigned ints with a compare-exchange network of ite terms"""
        if all(isinstance(x, int) for x in xs):
            return sorted(xs)
        xs = [z3.BitVecVal(x, 64) if isinstance(x, int) else x for x in xs]
        n = len(xs)
        for i in range(n):
            for j in range(n - 1 - i):
                a, b = xs[j], xs[j + 1]
                c = z3.ULE(a, b)
                xs[j], xs[j + 1] = z3.simplify(z3.If(c, a, b)), z3.simplify(z3.If(c, b, a))
        return xs

    def m_slice__sort_unstable(self, c, v):
        s = items_of(v)
        xs = s.items
        if all(isinstance(x, int) or is_bv(x) for x in xs):
            res = self.sort_scalars(list(xs))
        else:
            res = self.fork_sort(list(xs), lambda a, b: val_lt(a, b))
        if isinstance(s, SliceView):
            s.vec.items[s.lo:s.hi] = res
        else:
            s.items[:] = res
        return UNIT

    m_slice__sort = m_slice__sort_unstable

    def fork_sort(self, xs, lt):
        out = []
        for x in xs:
            pos = len(out)
            for i, y in enumerate(out):
                if self.ctx.branch(lt(x, y)):
                    pos = i
                    break
            out.insert(pos, x)
        return out

    def m_slice__sort_unstable_by(self, c, v, f):
        s = items_of(v)

        def lt(a, b):
            o = self.call_closure(f, ref_to(a), ref_to(b))
            return o.discr == -1
        res = self.fork_sort(list(s.items), lt)
        s.items[:] = res
        return UNIT

    m_slice__sort_by = m_slice__sort_unstable_by

    # ------------------------------------------------------------------ Index
    def m_Index__index(self, c, cont, idx):
        v = deref(cont)
        if isinstance(v, RMap):
            i = self.map_find(v, idx)
            if i < 0:
                raise RustPanic('HashMap index: key not found')
            return Ref(v.entries[i], 1)
        if isinstance(idx, Agg) and idx.ty == 'RangeFull':
            return cont if isinstance(cont, Ref) else ref_to(v)
        if isinstance(idx, Agg) and idx.ty in ('Range', 'RangeFrom', 'RangeTo', 'RangeInclusive'):
            base = v if isinstance(v, (RVec, SliceView, str)) else None
            if base is None:
                raise Unsupported('range index on ' + type(v).__name__)
            n = len(base) if isinstance(base, str) else len(base.items)
            if idx.ty == 'Range':
                lo, hi = idx.f[0], idx.f[1]
            elif idx.ty == 'RangeInclusive':
                lo, hi = idx.f[0], idx.f[1] + 1
            elif idx.ty == 'RangeFrom':
                lo, hi = idx.f[0], n
            else:
                lo, hi = 0, idx.f[0]
            if not (isinstance(lo, int) and isinstance(hi, int)):
                raise Unsupported('symbolic range index')
            if lo > hi or hi > n:
                raise RustPanic('range index out of bounds')
            if isinstance(base, str):
                return base[lo:hi]
            if isinstance(base, SliceView):
                return ref_to(SliceView(base.vec, base.lo + lo, base.lo + hi))
            return ref_to(SliceView(base, lo, hi))
        return self.it.index_ref(v if not (isinstance(v, Agg) and len(v.f) == 1) else deref(v.f[0]), idx)

    m_IndexMut__index_mut = m_Index__index

    # ------------------------------------------------------------------ maps
    def _newmap(self, kind, is_set):
        return RMap(kind, is_set)

    def m_HashMap__new(self, c):
        return RMap('hash')

    def m_HashMap__with_capacity(self, c, n):
        return RMap('hash')

    def m_BTreeMap__new(self, c):
        return RMap('btree')

    def m_HashSet__new(self, c):
        return RMap('hash', True)

    def m_BTreeSet__new(self, c):
        return RMap('btree', True)

    def m_HashMap__len(self, c, m):
        return len(deref(m).entries)

    m_BTreeMap__len = m_HashSet__len = m_BTreeSet__len = m_HashMap__len

    def m_HashMap__is_empty(self, c, m):
        return len(deref(m).entries) == 0

    m_BTreeMap__is_empty = m_HashSet__is_empty = m_BTreeSet__is_empty = m_HashMap__is_empty

    def m_HashMap__clear(self, c, m):
        deref(m).entries.clear()
        return UNIT

    m_BTreeMap__clear = m_HashSet__clear = m_BTreeSet__clear = m_HashMap__clear

    def _get_mut(self, c, m, k):
        mm = deref(m)
        i = self.map_find(mm, k)
        return Some(Ref(mm.entries[i], 1)) if i >= 0 else NONE()

    m_HashMap__get_mut = m_BTreeMap__get_mut = _get_mut

    def m_HashMap__get(self, c, m, k):
        """read-only lookup: one fork (found / not found); the found value is an ite over the matching entries
        when the values are scalars, so a lookup costs 2 paths instead of len+1"""
        mm = deref(m)
        key = deref(k)
        conds = [val_eq(key, e[0]) for e in mm.entries]
        if all(isinstance(cd, bool) for cd in conds):
            for i, cd in enumerate(conds):
                if cd:
                    return Some(Ref(mm.entries[i], 1))
            return NONE()
        live = [(cd, e) for cd, e in zip(conds, mm.entries) if not (isinstance(cd, bool) and not cd)]
        vals = [e[1] for _, e in live]
        merged = merge_scalars([z3bool(cd) for cd, _ in live], vals) if getattr(self.ctx, 'merge_lookups', False) else None
        if merged is None:
            i = self.map_find(mm, k)
            return Some(Ref(mm.entries[i], 1)) if i >= 0 else NONE()
        found = b_or(*[cd for cd, _ in live])
        if self.ctx.branch(found):
            return Some(ref_to(merged))
        return NONE()

    m_BTreeMap__get = m_HashMap__get

    def m_HashMap__contains_key(self, c, m, k):
        mm = deref(m)
        kk = deref(k)
        conds = [val_eq(kk, e[0]) for e in mm.entries]
        return b_or(*conds)

    m_BTreeMap__contains_key = m_HashSet__contains = m_BTreeSet__contains = m_HashMap__contains_key

    def m_HashMap__insert(self, c, m, k, v):
        old = self.map_insert(deref(m), k, v)
        return NONE() if old is None else Some(old)

    m_BTreeMap__insert = m_HashMap__insert

    def m_HashSet__insert(self, c, m, k):
        mm = deref(m)
        i = self.map_find(mm, k)
        if i >= 0:
            return False
        p = self.map_insert_pos(mm, k)
        mm.entries.insert(p, [k, UNIT])
        return True

    m_BTreeSet__insert = m_HashSet__insert

    def m_HashMap__remove(self, c, m, k):
        mm = deref(m)
        i = self.map_find(mm, k)
        if i < 0:
            return NONE()
        e = mm.entries.pop(i)
        return Some(e[1])

    m_BTreeMap__remove = m_HashMap__remove

    def m_HashSet__remove(self, c, m, k):
        mm = deref(m)
        i = self.map_find(mm, k)
        if i < 0:
            return False
        mm.entries.pop(i)
        return True

    m_BTreeSet__remove = m_HashSet__remove

    def m_HashSet__take(self, c, m, k):
        mm = deref(m)
        i = self.map_find(mm, k)
        if i < 0:
            return NONE()
        return Some(mm.entries.pop(i)[0])

    def _kv_iter(self, m, by_value=False):
        mm = deref(m)
        ents = self.map_iter_order(mm)
        if mm.is_set:
            if by_value:
                return list_iter([e[0] for e in ents])
            return list_iter([Ref(e, 0) for e in ents])
        if by_value:
            return list_iter([Agg([e[0], e[1]]) for e in ents])
        return list_iter([Agg([Ref(e, 0), Ref(e, 1)]) for e in ents])

    def m_HashMap__iter(self, c, m):
        return self._kv_iter(m)

    m_BTreeMap__iter = m_HashSet__iter = m_BTreeSet__iter = m_HashMap__iter_mut = m_BTreeMap__iter_mut = m_HashMap__iter

    def m_HashMap__keys(self, c, m):
        return list_iter([Ref(e, 0) for e in self.map_iter_order(deref(m))])

    m_BTreeMap__keys = m_HashMap__keys

    def m_HashMap__values(self, c, m):
        return list_iter([Ref(e, 1) for e in self.map_iter_order(deref(m))])

    m_BTreeMap__values = m_HashMap__values_mut = m_BTreeMap__values_mut = m_HashMap__values

    def m_HashMap__into_keys(self, c, m):
        return list_iter([e[0] for e in self.map_iter_order(deref(m))])

    def m_HashMap__into_values(self, c, m):
        return list_iter([e[1] for e in self.map_iter_order(deref(m))])

    m_BTreeMap__into_keys = m_HashMap__into_keys
    m_BTreeMap__into_values = m_HashMap__into_values

    def m_BTreeSet__last(self, c, m):
        mm = deref(m)
        return Some(Ref(mm.entries[-1], 0)) if mm.entries else NONE()

    def m_BTreeSet__first(self, c, m):
        mm = deref(m)
        return Some(Ref(mm.entries[0], 0)) if mm.entries else NONE()

    def m_BTreeSet__append(self, c, m, other):
        a, b = deref(m), deref(other)
        for e in list(b.entries):
            i = self.map_find(a, e[0])
            if i < 0:
                a.entries.insert(self.map_insert_pos(a, e[0]), [e[0], UNIT])
        b.entries.clear()
        return UNIT

    def m_BTreeSet__is_subset(self, c, a, b):
        a, b = deref(a), deref(b)
        return b_and(*[b_or(*[val_eq(x[0], y[0]) for y in b.entries]) for x in a.entries])

    m_HashSet__is_subset = m_BTreeSet__is_subset

    def m_BTreeSet__difference(self, c, a, b):
        a, b = deref(a), deref(b)
        out = []
        for x in a.entries:
            inb = b_or(*[val_eq(x[0], y[0]) for y in b.entries])
            if not self.ctx.branch(inb):
                out.append(Ref(x, 0))
        return list_iter(out)

    m_HashSet__difference = m_BTreeSet__difference

    def m_BTreeSet__is_superset(self, c, a, b):
        return self.m_BTreeSet__is_subset(c, b, a)

    m_HashSet__is_superset = m_BTreeSet__is_superset

    def m_BTreeSet__is_disjoint(self, c, a, b):
        a, b = deref(a), deref(b)
        return b_and(*[b_not(val_eq(x[0], y[0])) for x in a.entries for y in b.entries])

    m_HashSet__is_disjoint = m_BTreeSet__is_disjoint

    def m_BTreeSet__intersection(self, c, a, b):
        a, b = deref(a), deref(b)
        out = []
        for x in a.entries:
            if self.ctx.branch(b_or(*[val_eq(x[0], y[0]) for y in b.entries])):
                out.append(Ref(x, 0))
        return list_iter(out)

    m_HashSet__intersection = m_BTreeSet__intersection

    def m_BTreeSet__union(self, c, a, b):
        a, b = deref(a), deref(b)
        tmp = RMap(a.kind, True, [[e[0], UNIT] for e in a.entries])
        for y in b.entries:
            if self.map_find(tmp, y[0]) < 0:
                tmp.entries.insert(self.map_insert_pos(tmp, y[0]), [y[0], UNIT])
        return list_iter([Ref(e, 0) for e in (tmp.entries if a.kind == 'btree' else self.map_iter_order(tmp))])

    m_HashSet__union = m_BTreeSet__union

    def m_BTreeSet__symmetric_difference(self, c, a, b):
        a, b = deref(a), deref(b)
        tmp = RMap(a.kind, True, [])
        for src, other in ((a, b), (b, a)):
            for x in src.entries:
                if not self.ctx.branch(b_or(*[val_eq(x[0], y[0]) for y in other.entries])):
                    tmp.entries.insert(self.map_insert_pos(tmp, x[0]), [x[0], UNIT])
        return list_iter([Ref(e, 0) for e in tmp.entries])

    m_HashSet__symmetric_difference = m_BTreeSet__symmetric_difference

    def m_BTreeMap__append(self, c, m, other):
        mm, oo = deref(m), deref(other)
        for k, v in list(oo.entries):
            self.map_insert(mm, k, v)
        oo.entries[:] = []
        return UNIT

    m_BTreeSet__append = m_BTreeMap__append

    def m_bool__then(self, c, b, f):
        return Some(self.call_closure(f)) if self.ctx.branch(b) else NONE()

    def m_Option__transpose(self, c, o):
        o = deref(o)
        if o.discr == 0:
            return Ok(NONE())
        r = deref(o.f[0])
        return Ok(Some(r.f[0])) if r.vname == 'Ok' else r

    def m_slice__split_at(self, c, v, n):
        s = items_of(v)
        return Agg([RVec(list(s.items[:n])), RVec(list(s.items[n:]))])

    # Entry API
    def m_HashMap__entry(self, c, m, k):
        mm = deref(m)
        i = self.map_find(mm, k)
        if i >= 0:
            return Enum('Entry', 0 if mm.kind == 'hash' else 1, 'Occupied', [Agg([ref_to(mm), Ref(mm.entries[i], 1)], 'OccupiedEntry')])
        return Enum('Entry', 1 if mm.kind == 'hash' else 0, 'Vacant', [Agg([ref_to(mm), k], 'VacantEntry')])

    m_BTreeMap__entry = m_HashMap__entry

    def _entry_insert(self, ve, val):
        mm, k = deref(ve).f
        mm = deref(mm)
        p = self.map_insert_pos(mm, k)
        e = [k, val]
        mm.entries.insert(p, e)
        return Ref(e, 1)

    def m_Entry__or_insert(self, c, e, val):
        if e.vname == 'Occupied':
            return e.f[0].f[1]
        return self._entry_insert(e.f[0], val)

    def m_Entry__or_default(self, c, e):
        if e.vname == 'Occupied':
            return e.f[0].f[1]
        # value type is the last generic argument of the Entry type in the callee
        cal = parse_callee(c)
        vty = split_top(c[c.index('<') + 1: c.rindex('>::')], ',')[-1] if '<' in c else 'f64'
        return self._entry_insert(e.f[0], self.default_of(vty.strip()))

    def m_Entry__or_insert_with(self, c, e, f):
        if e.vname == 'Occupied':
            return e.f[0].f[1]
        return self._entry_insert(e.f[0], self.call_closure(f))

    def m_Entry__and_modify(self, c, e, f):
        if e.vname == 'Occupied':
            self.call_closure(f, e.f[0].f[1])
        return e

    def m_VacantEntry__insert(self, c, ve, val):
        return self._entry_insert(ve, val)

    def m_OccupiedEntry__get_mut(self, c, oe):
        return deref(oe).f[1]

    m_OccupiedEntry__get = m_OccupiedEntry__into_mut = m_OccupiedEntry__get_mut

    # ------------------------------------------------------------------ Option / Result
    def m_Option__as_ref(self, c, o):
        o = deref(o)
        return Some(Ref(o.f, 0)) if o.discr == 1 else NONE()

    m_Option__as_mut = m_Option__as_ref

    def m_Option__as_deref(self, c, o):
        o = deref(o)
        if o.discr != 1:
            return NONE()
        v = o.f[0]
        v = deref(v)
        if isinstance(v, RString):
            return Some(v.s)
        return Some(Ref(o.f, 0))

    def m_Option__is_some(self, c, o):
        return deref(o).discr == 1

    def m_Option__is_none(self, c, o):
        return deref(o).discr == 0

    def m_Option__unwrap(self, c, o):
        if o.discr != 1:
            raise RustPanic('called `Option::unwrap()` on a `None` value')
        return o.f[0]

    def m_Option__expect(self, c, o, msg):
        if o.discr != 1:
            raise RustPanic('Option::expect: ' + str(msg))
        return o.f[0]

    def m_Option__unwrap_or(self, c, o, d):
        return o.f[0] if o.discr == 1 else d

    def m_Option__unwrap_or_default(self, c, o):
        if o.discr == 1:
            return o.f[0]
        ty = self._first_generic(c)
        return self.default_of(ty)

    def m_Option__unwrap_or_else(self, c, o, f):
        return o.f[0] if o.discr == 1 else self.call_closure(f)

    def m_Option__map(self, c, o, f):
        return Some(self.call_closure(f, o.f[0])) if o.discr == 1 else NONE()

    def m_Option__map_or(self, c, o, d, f):
        return self.call_closure(f, o.f[0]) if o.discr == 1 else d

    def m_Option__map_or_else(self, c, o, d, f):
        return self.call_closure(f, o.f[0]) if o.discr == 1 else self.call_closure(d)

    def m_Option__and_then(self, c, o, f):
        return self.call_closure(f, o.f[0]) if o.discr == 1 else NONE()

    def m_Option__ok_or(self, c, o, e):
        return Ok(o.f[0]) if o.discr == 1 else Err(e)

    def m_Option__ok_or_else(self, c, o, f):
        return Ok(o.f[0]) if o.discr == 1 else Err(self.call_closure(f))

    def m_Option__is_some_and(self, c, o, f):
        return self.call_closure(f, o.f[0]) if o.discr == 1 else False

    def m_Option__is_none_or(self, c, o, f):
        return self.call_closure(f, o.f[0]) if o.discr == 1 else True

    def m_Option__cloned(self, c, o):
        return Some(deep_clone(deref(o.f[0]))) if o.discr == 1 else NONE()

    m_Option__copied = m_Option__cloned

    def m_Option__iter(self, c, o):
        o = deref(o)
        return list_iter([Ref(o.f, 0)] if o.discr == 1 else [])

    def m_Option__zip(self, c, a, b):
        return Some(Agg([a.f[0], b.f[0]])) if a.discr == 1 and b.discr == 1 else NONE()

    def m_Option__take(self, c, o):
        r = deref(o)
        if r.discr == 1:
            v = r.f[0]
            r.discr, r.vname, r.f = 0, 'None', []
            return Some(v)
        return NONE()

    def m_Option__get_or_insert_with(self, c, o, f):
        r = deref(o)
        if r.discr == 0:
            v = self.call_closure(f)
            r.discr, r.vname, r.f = 1, 'Some', [v]
        return Ref(r.f, 0)

    def m_Option__get_or_insert(self, c, o, v):
        r = deref(o)
        if r.discr == 0:
            r.discr, r.vname, r.f = 1, 'Some', [v]
        return Ref(r.f, 0)

    def m_Option__filter(self, c, o, f):
        if o.discr == 1 and self.ctx.branch(self.call_closure(f, Ref(o.f, 0))):
            return o
        return NONE()

    def m_Option__or(self, c, a, b):
        return a if a.discr == 1 else b

    def m_Option__ok_or(self, c, o, e):
        return Ok(o.f[0]) if o.discr == 1 else Err(e)

    def m_Result__unwrap(self, c, r):
        if r.discr != 0:
            raise RustPanic('called `Result::unwrap()` on an `Err` value')
        return r.f[0]

    def m_Result__expect(self, c, r, msg):
        if r.discr != 0:
            raise RustPanic('Result::expect: ' + str(msg))
        return r.f[0]

    def m_Result__unwrap_or(self, c, r, d):
        return r.f[0] if r.discr == 0 else d

    def m_Result__unwrap_or_default(self, c, r):
        return r.f[0] if r.discr == 0 else self.default_of(self._first_generic(c))

    def m_Result__ok(self, c, r):
        return Some(r.f[0]) if r.discr == 0 else NONE()

    def m_Result__is_ok(self, c, r):
        return deref(r).discr == 0

    def m_Result__is_err(self, c, r):
        return deref(r).discr == 1

    def m_Result__map(self, c, r, f):
        return Ok(self.call_closure(f, r.f[0])) if r.discr == 0 else r

    def m_Result__map_err(self, c, r, f):
        return r if r.discr == 0 else Err(self.call_closure(f, r.f[0]))

    def m_Result__and_then(self, c, r, f):
        return self.call_closure(f, r.f[0]) if r.discr == 0 else r

    def m_Result__as_ref(self, c, r):
        r = deref(r)
        return Enum('Result', r.discr, r.vname, [Ref(r.f, 0)])

    def _first_generic(self, c):
        k = c.index('::<')
        e = c.index('>::', k)
        inner = c[k + 3:e]
        return split_top(inner)[0]

    # Try / FromResidual
    def m_Try__branch(self, c, r):
        if r.ty == 'Result':
            if r.discr == 0:
                return Enum('ControlFlow', 0, 'Continue', [r.f[0]])
            return Enum('ControlFlow', 1, 'Break', [Err(r.f[0])])
        if r.ty == 'Option':
            if r.discr == 1:
                return Enum('ControlFlow', 0, 'Continue', [r.f[0]])
            return Enum('ControlFlow', 1, 'Break', [NONE()])
        raise Unsupported('Try::branch on ' + r.ty)

    def m_FromResidual__from_residual(self, c, res):
        if res.ty == 'Option':
            return NONE()
        e = res.f[0]
        pc = parse_callee(c)
        tgt = generic_args(pc.self_ty)
        src = generic_args(pc.trait_args[0]) if pc.trait_args else []
        if len(tgt) >= 2 and len(src) >= 2 and tgt[-1] != src[-1]:
            e = self.it.call(f'<{tgt[-1]} as From<{src[-1]}>>::from', [e], None)
        return Err(e)

    # ------------------------------------------------------------------ conversions
    def m_From__from(self, c, x):
        pc = parse_callee(c)
        S = pc.self_ty
        if S == 'anyhow::Error':
            if isinstance(x, Opaque) and x.what == 'anyhow':
                return x
            return Opaque('anyhow', x)
        h = ty_head(S)
        if h == 'String':
            return RString(x if isinstance(x, str) else deref(x).s)
        if h in ('f64',):
            return fin(x) if isinstance(x, int) else x
        if h in INT_TYS:
            return self.it.cast(x, None, h, 'IntToInt')
        if h == 'Vec':
            v = deref(x)
            if isinstance(v, (RVec, SliceView)):
                return RVec([deep_clone(y) for y in v.items])
        if h == 'Box':
            return x
        if h in ('HashMap', 'BTreeMap', 'HashSet', 'BTreeSet'):
            v = deref(x)
            if isinstance(v, RVec):  # from array
                out = RMap('hash' if h.startswith('Hash') else 'btree', h.endswith('Set'))
                for y in v.items:
                    if out.is_set:
                        self.m_HashSet__insert(c, out, y)
                    else:
                        self.map_insert(out, y.f[0], y.f[1])
                return out
        if h == 'OrderedFloat':
            return Agg([x], 'OrderedFloat')
        if h == 'Option':
            return Some(x)
        if pc.trait_args and norm_ty(pc.trait_args[0]) == S:
            return x
        raise Unsupported('From::from for ' + c[:120])

    def m_Into__into(self, c, x):
        pc = parse_callee(c)
        tgt = pc.trait_args[0]
        if norm_ty(tgt) == pc.self_ty:
            return x
        return self.it.call(f'<{tgt} as From<{pc.self_ty}>>::from', [x], None)

    def m_TryInto__try_into(self, c, x):
        pc = parse_callee(c)
        tgt = pc.trait_args[0]
        return self.it.call(f'<{tgt} as TryFrom<{pc.self_ty}>>::try_from', [x], None)

    def m_TryFrom__try_from(self, c, x):
        pc = parse_callee(c)
        S, A = pc.self_ty, pc.trait_args[0] if pc.trait_args else None
        if ty_head(S) in INT_TYS and (A is None or ty_head(A) in INT_TYS):
            signed, bits = INT_TYS[ty_head(S)]
            lo = -(1 << (bits - 1)) if signed else 0
            hi = (1 << (bits - 1)) - 1 if signed else (1 << bits) - 1
            if isinstance(x, int):
                return Ok(x) if lo <= x <= hi else Err(Opaque('TryFromIntError'))
            raise Unsupported('symbolic int try_from')
        # blanket impl: TryFrom<U> for T where U: Into<T>
        r = self.it.call(f'<{A} as Into<{S}>>::into', [x], None)
        return Ok(r)

    def m_AsRef__as_ref(self, c, x):
        v = deref(x)
        if isinstance(v, Enum) and v.ty == 'Cow':
            return v.f[0] if v.discr == 0 else Ref(v.f, 0)
        if isinstance(v, RString):
            return v.s
        return x

    m_Borrow__borrow = m_AsRef__as_ref

    def m_Deref__deref(self, c, x):
        v = deref(x)
        if isinstance(v, Enum) and v.ty == 'Cow':
            return v.f[0] if v.discr == 0 else Ref(v.f, 0)
        if isinstance(v, SymString):
            return v          # identity-only string: its &str view is itself
        if isinstance(v, RString):
            return v.s
        if isinstance(v, (RVec, SliceView)):
            return x if isinstance(x, Ref) else ref_to(v)
        if isinstance(v, Agg) and v.ty == 'OrderedFloat':
            return Ref(v.f, 0)
        if isinstance(x, Ref):
            # &Box<T>, &&T ...
            return x
        raise Unsupported(f'Deref::deref on {type(v).__name__} ({c[:100]})')

    m_DerefMut__deref_mut = m_Deref__deref

    def m_Cow__into_owned(self, c, cow):
        if cow.discr == 0:
            return deep_clone(deref(cow.f[0]))
        return cow.f[0]

    m_Cow__to_mut = None

    def m_ToOwned__to_owned(self, c, x):
        v = deref(x)
        if isinstance(v, str):
            return RString(v)
        return deep_clone(v)

    def m_Clone__clone(self, c, x):
        return deep_clone(deref(x))

    m_derived__Clone__clone = m_Clone__clone

    def m_derived__PartialEq__eq(self, c, a, b):
        return val_eq(a, b)

    def m_derived__PartialEq__ne(self, c, a, b):
        return b_not(val_eq(a, b))

    def m_PartialEq__eq(self, c, a, b):
        return val_eq(a, b)

    def m_PartialEq__ne(self, c, a, b):
        return b_not(val_eq(a, b))

    def _signed_of(self, c):
        pc = parse_callee(c)
        h = ty_head(pc.self_ty or '')
        return INT_TYS.get(h, (False, 64))[0]

    def _user_partial_cmp(self, c, a, b, want):
        """`a < b` etc. on a crate type are the provided methods of PartialOrd, i.e. the crate's own `partial_cmp` (also with a foreign
        right-hand side such as `Bound > f64`): run that body when the MIR has one. -> bool, or None when there is no local impl"""
        if not isinstance(deref(a), (Agg, Enum)) or not getattr(deref(a), 'ty', None):
            return None
        callee = re.sub(r'::(lt|gt|le|ge)$', '::partial_cmp', c)
        cache = self.__dict__.setdefault('_user_pcmp_cache', {})
        has = cache.get(callee)
        if has is None:
            try:
                has = self.it.resolve(callee, [a, b], None)[0] == 'body'
            except Exception:
                has = False
            cache[callee] = has
        if not has:
            return None
        r = deref(self.it.call(callee, [a, b], None))
        if r.discr == 0:          # None: incomparable
            return False
        return deref(r.f[0]).discr in want

    def m_PartialOrd__lt(self, c, a, b):
        u = self._user_partial_cmp(c, a, b, (-1,))
        if u is not None:
            return u
        return val_lt(a, b, self._signed_of(c))

    def m_PartialOrd__gt(self, c, a, b):
        u = self._user_partial_cmp(c, a, b, (1,))
        if u is not None:
            return u
        return val_lt(b, a, self._signed_of(c))

    def m_PartialOrd__le(self, c, a, b):
        u = self._user_partial_cmp(c, a, b, (-1, 0))
        if u is not None:
            return u
        a, b = deref(a), deref(b)
        if isinstance(a, FV):
            return f_cmp('le', a, b)
        return b_not(val_lt(b, a, self._signed_of(c)))

    def m_PartialOrd__ge(self, c, a, b):
        u = self._user_partial_cmp(c, a, b, (1, 0))
        if u is not None:
            return u
        a, b = deref(a), deref(b)
        if isinstance(a, FV):
            return f_cmp('ge', a, b)
        return b_not(val_lt(a, b, self._signed_of(c)))

    def ordering(self, lt, eq):
        if self.ctx.branch(lt):
            return Enum('Ordering', -1, 'Less', [])
        if self.ctx.branch(eq):
            return Enum('Ordering', 0, 'Equal', [])
        return Enum('Ordering', 1, 'Greater', [])

    def m_Ord__cmp(self, c, a, b):
        a, b = deref(a), deref(b)
        s = self._signed_of(c)
        return self.ordering(val_lt(a, b, s), val_eq(a, b))

    def m_PartialOrd__partial_cmp(self, c, a, b):
        a, b = deref(a), deref(b)
        if isinstance(a, FV) and (a.tag == 'nan' or b.tag == 'nan'):
            return NONE()
        return Some(self.m_Ord__cmp(c, a, b))

    m_derived__PartialOrd__partial_cmp = m_PartialOrd__partial_cmp
    m_derived__Ord__cmp = m_Ord__cmp

    def m_Ordering__reverse(self, c, o):
        d = -o.discr
        return Enum('Ordering', d, {-1: 'Less', 0: 'Equal', 1: 'Greater'}[d], [])

    def m_Ordering__then(self, c, a, b):
        return b if a.discr == 0 else a

    def m_Ord__max(self, c, a, b):
        return b if self.ctx.branch(val_lt(a, b, self._signed_of(c))) else a

    def m_Ord__min(self, c, a, b):
        return b if self.ctx.branch(val_lt(b, a, self._signed_of(c))) else a

    def m_cmp__max(self, c, a, b):
        return b if self.ctx.branch(val_lt(a, b)) else a

    def m_cmp__min(self, c, a, b):
        return b if self.ctx.branch(val_lt(b, a)) else a

    def m_Hash__hash(self, c, *a):
        return UNIT

    m_derived__Hash__hash = m_Hash__hash

    def m_mem__swap(self, c, a, b):
        x, y = a.get(), b.get()
        a.set(y)
        b.set(x)
        return UNIT

    def m_mem__take(self, c, a):
        x = a.get()
        a.set(self.default_like(x))
        return x

    def m_mem__replace(self, c, a, v):
        x = a.get()
        a.set(v)
        return x

    def default_like(self, x):
        if isinstance(x, RVec):
            return RVec([])
        if isinstance(x, RMap):
            return RMap(x.kind, x.is_set)
        if isinstance(x, RString):
            return RString('')
        if isinstance(x, Enum) and x.ty == 'Option':
            return NONE()
        if isinstance(x, FV):
            return ZERO
        if isinstance(x, int):
            return 0
        raise Unsupported('mem::take of ' + type(x).__name__)

    # ------------------------------------------------------------------ Default
    def default_of(self, ty):
        ty = norm_ty(ty)
        h = ty_head(ty)
        if ty in ('f64', 'f32'):
            return ZERO
        if ty in INT_TYS:
            return False if ty == 'bool' else 0
        if h == 'Vec':
            return RVec([])
        if h == 'String':
            return RString('')
        if h == 'Option':
            return NONE()
        if h == 'HashMap':
            return RMap('hash')
        if h == 'BTreeMap':
            return RMap('btree')
        if h == 'HashSet':
            return RMap('hash', True)
        if h == 'BTreeSet':
            return RMap('btree', True)
        if ty == '()':
            return UNIT
        if ty.startswith('('):
            return Agg([self.default_of(t) for t in split_top(ty[1:-1])])
        if h == 'OrderedFloat':
            return Agg([ZERO], 'OrderedFloat')
        return self.it.call(f'<{ty} as Default>::default', [], None)

    def m_Default__default(self, c):
        pc = parse_callee(c)
        ty = pc.self_ty
        h = ty_head(ty)
        if ty in ('f64', 'f32') or ty in INT_TYS or h in ('Vec', 'String', 'Option', 'HashMap', 'BTreeMap', 'HashSet',
                                                        'BTreeSet', 'OrderedFloat') or ty.startswith('('):
            return self.default_of(ty)
        raise Unsupported('Default::default for ' + ty)

    # ------------------------------------------------------------------ f64
    def m_f64__abs(self, c, a):
        return f_abs(a)

    def m_f64__floor(self, c, a):
        return f_floor(a)

    def m_f64__ceil(self, c, a):
        return f_ceil(a)

    def m_f64__min(self, c, a, b):
        return f_min(self.ctx, a, b)

    def m_f64__max(self, c, a, b):
        return f_max(self.ctx, a, b)

    def m_f64__powi(self, c, a, n):
        return f_powi(self.ctx, a, n)

    def m_f64__is_finite(self, c, a):
        return a.tag == 'fin'

    def m_f64__is_nan(self, c, a):
        return a.tag == 'nan'

    def m_f64__is_infinite(self, c, a):
        return a.tag in ('pinf', 'ninf')

    def m_f64__total_cmp(self, c, a, b):
        a, b = deref(a), deref(b)
        if a.tag == 'nan' or b.tag == 'nan':
            raise Unsupported('total_cmp on NaN is outside the R-model')
        return self.ordering(f_cmp('lt', a, b), f_cmp('eq', a, b))

    def m_f64__log2(self, c, a):
        """log2 is only needed as ceil(log2(m)); modelled by bracketing for integer-valued arguments:
        returns a value v with ceil(v) == k where 2^(k-1) < m <= 2^k (exact at powers of two)."""
        if a.tag == 'pinf':
            return PINF
        if a.tag != 'fin':
            return NAN
        if isinstance(a.r, Fraction):
            m = a.r
            if m <= 0:
                return NAN if m < 0 else NINF
            k = 0
            while Fraction(2) ** k < m:
                k += 1
            while k > -1100 and Fraction(2) ** (k - 1) >= m:
                k -= 1
            # 2^(k-1) < m <= 2^k
            if Fraction(2) ** k == m:
                return fin(k)
            return FV('fin', Fraction(2 * k - 1, 2))  # strictly between k-1 and k
        # symbolic: fork on the bracket, up to the bound recorded in ctx
        kmax = getattr(self.ctx, 'log2_kmax', 24)
        m = z3real(a.r)
        if self.ctx.branch(m == 0):
            return NINF               # log2(0) = -inf
        if self.ctx.branch(m < 0):
            return NAN                # log2 of a negative number
        for k in range(0, kmax + 1):
            if self.ctx.branch(m == z3.RealVal(2 ** k)):
                return fin(k)
            if self.ctx.branch(m < z3.RealVal(2 ** k)):
                if k == 0:
                    raise Unsupported('log2 of value below 1')
                return FV('fin', Fraction(2 * k - 1, 2))
        raise Unsupported('log2 argument above modelled range')

    def m_Zero__is_zero(self, c, a):
        a = deref(a)
        if isinstance(a, FV):
            return f_cmp('eq', a, ZERO)
        return scalar_eq(a, 0)

    def m_Zero__zero(self, c):
        pc = parse_callee(c)
        return ZERO if pc.self_ty == 'f64' else 0

    def m_AbsDiffEq__default_epsilon(self, c):
        return STD_EPS

    def m_AbsDiffEq__abs_diff_eq(self, c, a, b, eps):
        a, b = deref(a), deref(b)
        return f_cmp('le', f_abs(f_sub(a, b)), eps)

    def _arith(self, op, a, b):
        a, b = deref(a), deref(b)
        if isinstance(a, FV):
            return {'add': lambda: f_add(a, b), 'sub': lambda: f_sub(a, b), 'mul': lambda: f_mul(self.ctx, a, b),
                    'div': lambda: f_div(self.ctx, a, b)}[op]()
        ty = ty_head(parse_callee(self.cur_callee).self_ty)
        return self.it.binop({'add': 'Add', 'sub': 'Sub', 'mul': 'Mul', 'div': 'Div'}[op], a, b, ty)

    def m_Add__add(self, c, a, b):
        return self._arith('add', a, b)

    def m_Sub__sub(self, c, a, b):
        return self._arith('sub', a, b)

    def m_Mul__mul(self, c, a, b):
        return self._arith('mul', a, b)

    def m_Div__div(self, c, a, b):
        return self._arith('div', a, b)

    def m_Neg__neg(self, c, a):
        a = deref(a)
        return f_neg(a) if isinstance(a, FV) else self.it.unop('Neg', a, None)

    def m_AddAssign__add_assign(self, c, r, b):
        r.set(self._arith('add', r.get(), b))
        return UNIT

    def m_SubAssign__sub_assign(self, c, r, b):
        r.set(self._arith('sub', r.get(), b))
        return UNIT

    def m_MulAssign__mul_assign(self, c, r, b):
        r.set(self._arith('mul', r.get(), b))
        return UNIT

    def m_DivAssign__div_assign(self, c, r, b):
        r.set(self._arith('div', r.get(), b))
        return UNIT

    def m_OrderedFloat__into_inner(self, c, a):
        return a.f[0]

    def m_int__checked_mul(self, c, a, b):
        ty = ty_head(c.split('<impl ')[1].split('>')[0]) if '<impl ' in c else 'i64'
        signed, bits = INT_TYS[ty]
        if isinstance(a, int) and isinstance(b, int):
            r = a * b
            lo = -(1 << (bits - 1)) if signed else 0
            hi = (1 << (bits - 1)) - 1 if signed else (1 << bits) - 1
            return Some(r) if lo <= r <= hi else NONE()
        raise Unsupported('symbolic checked_mul')

    def m_int__checked_sub(self, c, a, b):
        if isinstance(a, int) and isinstance(b, int):
            r = a - b
            return Some(r) if r >= 0 else NONE()
        raise Unsupported('symbolic checked_sub')

    def m_int__pow(self, c, a, n):
        return a ** n

    def _int_ty(self, c):
        m = re.search(r'<impl (\w+)>', c)
        if m and m.group(1) in INT_TYS:
            return m.group(1)
        h = c.split('::')[0]
        return h if h in INT_TYS else 'u64'

    def _int_range(self, c):
        signed, bits = INT_TYS[self._int_ty(c)]
        return (-(1 << (bits - 1)), (1 << (bits - 1)) - 1) if signed else (0, (1 << bits) - 1)

    def m_int__checked_add(self, c, a, b):
        if isinstance(a, int) and isinstance(b, int):
            lo, hi = self._int_range(c)
            return Some(a + b) if lo <= a + b <= hi else NONE()
        raise Unsupported('symbolic checked_add')

    def m_int__saturating_add(self, c, a, b):
        if isinstance(a, int) and isinstance(b, int):
            lo, hi = self._int_range(c)
            return max(lo, min(hi, a + b))
        raise Unsupported('symbolic saturating_add')

    def m_int__saturating_sub(self, c, a, b):
        if isinstance(a, int) and isinstance(b, int):
            lo, hi = self._int_range(c)
            return max(lo, min(hi, a - b))
        raise Unsupported('symbolic saturating_sub')

    def m_int__wrapping_add(self, c, a, b):
        if isinstance(a, int) and isinstance(b, int):
            signed, bits = INT_TYS[self._int_ty(c)]
            r = (a + b) & ((1 << bits) - 1)
            return r - (1 << bits) if signed and r >= 1 << (bits - 1) else r
        raise Unsupported('symbolic wrapping_add')

    def m_int__abs(self, c, a):
        if isinstance(a, int):
            return abs(a)
        raise Unsupported('symbolic abs')

    def m_int__abs_diff(self, c, a, b):
        if isinstance(a, int) and isinstance(b, int):
            return abs(a - b)
        raise Unsupported('symbolic abs_diff')

    def m_int__max(self, c, a, b):
        a, b = deref(a), deref(b)
        return b if self.ctx.branch(val_lt(a, b)) or not self.ctx.branch(val_lt(b, a)) else a

    def m_int__min(self, c, a, b):
        a, b = deref(a), deref(b)
        return b if self.ctx.branch(val_lt(b, a)) else a

    def m_bool__then_some(self, c, b, v):
        return Some(v) if self.ctx.branch(b) else NONE()

    def m_integer__gcd(self, c, a, b):
        import math
        return math.gcd(a, b)

    def m_integer__lcm(self, c, a, b):
        import math
        if a == 0 or b == 0:
            return 0
        return abs(a * b) // math.gcd(a, b)

    # num::rational::Ratio<i64>
    def m_Ratio__approximate_float(self, c, x):
        """Ratio::<i64>::approximate_float: continued-fraction approximation (num-rational 0.4);
        modelled for concrete inputs only, validated differentially against the native crate"""
        if x.tag != 'fin':
            return NONE()
        if not isinstance(x.r, Fraction):
            raise Unsupported('approximate_float on symbolic value')
        r = approximate_float_i64(x.r)
        if r is None:
            return NONE()
        return Some(Agg([r.numerator, r.denominator], 'Ratio'))

    def m_Ratio__denom(self, c, r):
        return Ref(deref(r).f, 1)

    def m_Ratio__numer(self, c, r):
        return Ref(deref(r).f, 0)

    # ------------------------------------------------------------------ strings / fmt / errors
    def m_ToString__to_string(self, c, x):
        v = deref(x)
        if isinstance(v, str):
            return RString(v)
        if isinstance(v, SymString):
            return v
        if isinstance(v, RString):
            return RString(v.s)
        if isinstance(v, int):
            return RString(str(v))
        if is_bv(v):
            # symbolic integer: travels as a token; std's integer Display/FromStr round trip is assumed exact
            toks = self.ctx.notes.setdefault('numtokens', {})
            tok = f'\u00a7i{len(toks)}\u00a7'
            toks[tok] = v
            return RString(tok)
        return RString(self.display(v))

    def m_slice__join(self, c, v, sep):
        sep = deref(sep)
        sep = sep.s if isinstance(sep, RString) else sep
        return RString(sep.join((deref(x).s if isinstance(deref(x), RString) else deref(x)) for x in items_of(v).items))

    def m_String__new(self, c):
        return RString('')

    def m_String__is_empty(self, c, s):
        return len(deref(s).s) == 0

    def m_String__as_str(self, c, s):
        return deref(s).s

    def m_String__clear(self, c, s):
        deref(s).s = ''
        return UNIT

    def m_String__push_str(self, c, s, t):
        deref(s).s += t
        return UNIT

    def m_String__len(self, c, s):
        return len(deref(s).s)

    def m_str__is_empty(self, c, s):
        s = deref(s)
        return len(s.s if isinstance(s, RString) else s) == 0

    def m_str__len(self, c, s):
        s = deref(s)
        return len(s.s if isinstance(s, RString) else s)

    def m_str__trim(self, c, s):
        return deref(s).strip()

    def _pat_match_char(self, p, ch):
        p = deref(p)
        if isinstance(p, str):
            return None
        if isinstance(p, int):
            return ch == chr(p)
        if isinstance(p, (RVec, SliceView)):
            return any(ch == chr(x) for x in p.items)
        if isinstance(p, (Closure, FnItem)):
            return self.ctx.branch(self.call_closure(p, ord(ch)))
        raise Unsupported('string pattern ' + type(p).__name__)

    def m_str__starts_with(self, c, s, p):
        s = deref(s)
        if isinstance(deref(p), str):
            return s.startswith(deref(p))
        return bool(s) and self._pat_match_char(p, s[0])

    def m_str__ends_with(self, c, s, p):
        s = deref(s)
        if isinstance(deref(p), str):
            return s.endswith(deref(p))
        return bool(s) and self._pat_match_char(p, s[-1])

    def m_str__strip_prefix(self, c, s, p):
        s = deref(s)
        return Some(s[len(p):]) if s.startswith(p) else NONE()

    def m_str__split_whitespace(self, c, s):
        return list_iter(deref(s).split())

    def m_str__split(self, c, s, pat):
        pat = pat if isinstance(pat, str) else chr(pat)
        return list_iter(deref(s).split(pat))

    def m_str__splitn(self, c, s, n, pat):
        s = deref(s)
        if isinstance(pat, (Closure, FnItem)):
            out, cur, cnt = [], '', 1
            for ch in s:
                if cnt < n and self.ctx.branch(self.call_closure(pat, ord(ch))):
                    out.append(cur)
                    cur = ''
                    cnt += 1
                else:
                    cur += ch
            out.append(cur)
            return list_iter(out)
        pat = pat if isinstance(pat, str) else chr(pat)
        return list_iter(s.split(pat, n - 1))

    def m_str__lines(self, c, s):
        return list_iter(deref(s).splitlines())

    def m_str__chars(self, c, s):
        return list_iter([ord(ch) for ch in deref(s)])

    def m_str__as_bytes(self, c, s):
        return ref_to(RVec(list(deref(s).encode())))

    def m_str__contains(self, c, s, p):
        return (p if isinstance(p, str) else chr(p)) in deref(s)

    def m_str__trim_start(self, c, s):
        return deref(s).lstrip()

    def m_str__trim_end(self, c, s):
        return deref(s).rstrip()

    def m_str__strip_suffix(self, c, s, p):
        s = deref(s)
        return Some(s[:len(s) - len(p)]) if s.endswith(p) else NONE()

    def m_FromStr__from_str(self, c, s):
        from .resolve import parse_callee as _pc
        ty = norm_ty(_pc(c).self_ty)
        return self.m_str__parse(f'core::str::<impl str>::parse::<{ty}>', s)

    def m_str__parse(self, c, s):
        s = deref(s)
        k = c.rindex('::parse::<')
        ty = norm_ty(c[k + len('::parse::<'):-1])
        if ty == 'f64':
            toks = self.ctx.notes.get('numtokens', {})
            if s in toks:
                return Ok(toks[s])
            v = rust_parse_f64(s)
            return Err(Opaque('ParseFloatError', s)) if v is None else Ok(v)
        if ty in INT_TYS:
            signed, bits = INT_TYS[ty]
            toks = self.ctx.notes.get('numtokens', {})
            if s in toks and is_bv(toks[s]) and toks[s].size() == bits:
                return Ok(toks[s])
            if re.fullmatch(r'[+-]?\d+' if signed else r'\+?\d+', s):
                n = int(s)
                lo = -(1 << (bits - 1)) if signed else 0
                hi = (1 << (bits - 1)) - 1 if signed else (1 << bits) - 1
                if lo <= n <= hi:
                    return Ok(n)
            return Err(Opaque('ParseIntError', s))
        if ty in ('String', 'std::string::String'):
            return Ok(RString(s))
        # user type: <T as FromStr>::from_str
        return self.it.call(f'<{ty} as FromStr>::from_str', [s], None)

    def m_char__is_ascii_whitespace(self, c, ch):
        ch = deref(ch)
        return chr(ch) in ' \t\n\x0c\r'

    def m_char__is_whitespace(self, c, ch):
        return chr(deref(ch)).isspace()

    def m_char__to_ascii_uppercase(self, c, ch):
        ch = deref(ch)
        return ord(chr(ch).upper()) if ch < 128 else ch

    def m_char__to_ascii_lowercase(self, c, ch):
        ch = deref(ch)
        return ord(chr(ch).lower()) if ch < 128 else ch

    def m_char__is_ascii_digit(self, c, ch):
        return chr(deref(ch)).isdigit() and deref(ch) < 128

    def m_str__to_lowercase(self, c, s):
        return RString(deref(s).lower())

    def m_str__to_uppercase(self, c, s):
        return RString(deref(s).upper())

    def m_str__to_string(self, c, s):
        return RString(deref(s))

    m_str__to_owned = m_str__to_string

    def m_fmt__format(self, c, args):
        return RString(self.render(args))

    def render(self, args):
        """render a fmt::Arguments value to a python string (new compact template encoding of rustc >= 1.89):
        0x00 end, 0x01..0x7f literal of that length, 0xc0 next argument with default options"""
        if not (isinstance(args, Opaque) and args.what == 'fmtargs'):
            return '<fmt>'
        a = args.data
        if len(a) == 1:          # Arguments::from_str("literal")
            return a[0] if isinstance(a[0], str) else '<fmt>'
        tmpl, argv = a[0], a[1]
        if not (isinstance(tmpl, Opaque) and tmpl.what == 'bytes'):
            return '<fmt>'
        raw = parse_byte_literal(tmpl.data)
        items = [deref(x) for x in deref(argv).items] if isinstance(deref(argv), (RVec, SliceView)) else []
        out, i, k = [], 0, 0
        while i < len(raw):
            b = raw[i]
            if b == 0:
                break
            if b < 0x80:
                out.append(raw[i + 1:i + 1 + b].decode('utf-8', 'replace'))
                i += 1 + b
                continue
            if b == 0xc0:
                out.append(self.display(items[k].data if k < len(items) and isinstance(items[k], Opaque) else None))
                k += 1
                i += 1
                continue
            # placeholder with explicit options (width / precision / flags): not modelled precisely
            out.append(self.display(items[k].data if k < len(items) and isinstance(items[k], Opaque) else None))
            k += 1
            i += 1
            while i < len(raw) and raw[i] >= 0x80 and raw[i] != 0xc0:
                i += 1
        return ''.join(out)

    def display(self, v):
        v = deref(v)
        if isinstance(v, str):
            return v
        if isinstance(v, RString):
            return v.s if isinstance(v.s, str) else str(v.s)
        if isinstance(v, bool):
            return 'true' if v else 'false'
        if isinstance(v, int):
            return str(v)
        if isinstance(v, FV):
            return self.display_f64(v)
        if isinstance(v, Enum) and v.ty.endswith('ObjSense'):
            return {'Min': 'MIN', 'Max': 'MAX'}.get(v.vname, v.vname)
        if isinstance(v, (Agg, Enum)) and v.ty:
            # a local Display impl: run it against a string buffer standing in for the Formatter
            from .resolve import parse_callee, local_trait_candidates
            callee = f'<{v.ty} as std::fmt::Display>::fmt'
            if local_trait_candidates(self.it, parse_callee(callee), v.ty, 2):
                buf = RString('')
                self.it.call(callee, [ref_to(v), ref_to(buf)], None)
                return buf.s
        if isinstance(v, Agg) and len(v.f) == 1:
            return self.display(v.f[0])
        return '<?>'

    def display_f64(self, v):
        if v.tag == 'pinf':
            return 'inf'
        if v.tag == 'ninf':
            return '-inf'
        if v.tag == 'nan':
            return 'NaN'
        if isinstance(v.r, Fraction):
            return rust_f64_display(float(v.r))
        # symbolic number: a token that parse::<f64>() maps back to the same value
        toks = self.ctx.notes.setdefault('numtokens', {})
        key = '\u00a7n%d\u00a7' % len(toks)
        toks[key] = v
        return key

    def m_must_use(self, c, x):
        return x

    m_hint__must_use = m_must_use

    def m_Argument__new_display(self, c, x):
        v = deref(x)
        if c.rstrip('>').endswith('<char') or c.endswith('::<&char>'):
            v = chr(deref(v))
        return Opaque('fmtarg', v)

    m_Argument__new_debug = m_Argument__new_lower_exp = m_Argument__new_display

    def m_Argument__from_usize(self, c, x):
        return Opaque('fmtarg', deref(x))

    def m_Arguments__new(self, c, *a):
        return Opaque('fmtargs', a)

    def m_Arguments__from_str(self, c, s):
        return Opaque('fmtargs', (s,))

    m_Arguments__new_v1 = m_Arguments__new_const = m_Arguments__new_v1_formatted = m_Arguments__new

    def m_DecodeError__new(self, c, m):
        return Opaque('DecodeError', m)

    def m_Write__write_fmt(self, c, w, args):
        w = deref(w)
        if not isinstance(w, RString):
            raise Unsupported('write_fmt on ' + type(w).__name__)
        w.s += self.render(args)
        return Ok(UNIT)

    m_Formatter__write_fmt = m_Write__write_fmt

    def m_Write__write_all(self, c, w, data):
        raise Unsupported('write_all')

    def m_Error__msg(self, c, m):
        return Opaque('anyhow', ('msg', m))

    def p_format_err(self, c, args):
        return Opaque('anyhow', ('msg', args))

    def p_not(self, c, b):
        return b_not(b)

    def p_dispatch_ensure(self, c, *a):
        return Opaque('anyhow', ('ensure', a[-1]))

    def m_TraitKind__anyhow_kind(self, c, e):
        return Opaque('anyhow_kind')

    m_AdhocKind__anyhow_kind = m_TraitKind__anyhow_kind

    def m_Trait__new(self, c, kind, e):
        return Opaque('anyhow', e)

    def m_Adhoc__new(self, c, kind, e):
        return Opaque('anyhow', ('msg', e))

    def m_Context__context(self, c, r, ctxv):
        r = r
        if r.ty == 'Option':
            return Ok(r.f[0]) if r.discr == 1 else Err(Opaque('anyhow', ('context', ctxv)))
        return r if r.discr == 0 else Err(Opaque('anyhow', ('context', ctxv, r.f[0])))

    def m_Context__with_context(self, c, r, f):
        if r.ty == 'Option':
            return Ok(r.f[0]) if r.discr == 1 else Err(Opaque('anyhow', ('context', None)))
        return r if r.discr == 0 else Err(Opaque('anyhow', ('context', None, r.f[0])))

    def m_panic(self, c, *a):
        raise RustPanic('explicit panic: ' + ' '.join(str(x) for x in a)[:100])

    m_panicking__panic = m_panicking__panic_fmt = m_panic_fmt = m_panicking__assert_failed = m_panic
    m_panicking__panic_display = m_option__expect_failed = m_result__unwrap_failed = m_panic
    m_panicking__unreachable_display = m_panicking__panic_explicit = m_panic

    def m_max_level(self, c):
        return Enum('LevelFilter', 0, 'Off', [])

    m_log__max_level = m_max_level


    # ------------------------------------------------------------------ further std combinators (robustness against routine refactorings)
    def m_Option__or_else(self, c, o, f):
        return o if o.discr == 1 else self.call_closure(f)

    def m_Option__xor(self, c, a, b):
        if a.discr == 1 and b.discr == 0:
            return a
        if a.discr == 0 and b.discr == 1:
            return b
        return NONE()

    def m_Option__and(self, c, a, b):
        return b if a.discr == 1 else NONE()

    def m_Option__replace(self, c, o, v):
        r = deref(o)
        old = Enum('Option', r.discr, r.vname, list(r.f))
        r.discr, r.vname, r.f = 1, 'Some', [v]
        return old

    def m_Option__insert(self, c, o, v):
        r = deref(o)
        r.discr, r.vname, r.f = 1, 'Some', [v]
        return Ref(r.f, 0)

    def m_Option__flatten(self, c, o):
        return o.f[0] if o.discr == 1 else NONE()

    def m_Option__inspect(self, c, o, f):
        if o.discr == 1:
            self.call_closure(f, Ref(o.f, 0))
        return o

    def m_Option__as_mut(self, c, o):
        r = deref(o)
        return Some(Ref(r.f, 0)) if r.discr == 1 else NONE()

    def m_bool__then(self, c, b, f):
        return Some(self.call_closure(f)) if self.ctx.branch(deref(b)) else NONE()

    def m_bool__then_some(self, c, b, v):
        return Some(v) if self.ctx.branch(deref(b)) else NONE()

    def m_Result__unwrap_or_else(self, c, r, f):
        return r.f[0] if r.discr == 0 else self.call_closure(f, r.f[0])

    def m_Result__map_or(self, c, r, d, f):
        return self.call_closure(f, r.f[0]) if r.discr == 0 else d

    def m_Result__map_or_else(self, c, r, d, f):
        return self.call_closure(f, r.f[0]) if r.discr == 0 else self.call_closure(d, r.f[0])

    def m_Result__or_else(self, c, r, f):
        return r if r.discr == 0 else self.call_closure(f, r.f[0])

    def m_Result__err(self, c, r):
        return Some(r.f[0]) if r.discr == 1 else NONE()

    def m_Result__is_ok_and(self, c, r, f):
        return r.discr == 0 and self.ctx.branch(self.call_closure(f, r.f[0]))

    def m_Result__is_err_and(self, c, r, f):
        return r.discr == 1 and self.ctx.branch(self.call_closure(f, r.f[0]))

    def m_Result__unwrap_err(self, c, r):
        if r.discr == 0:
            raise RustPanic('unwrap_err on Ok')
        return r.f[0]

    m_Result__expect_err = lambda self, c, r, msg: self.m_Result__unwrap_err(c, r)

    def m_Result__and(self, c, a, b):
        return b if a.discr == 0 else a

    def m_Result__or(self, c, a, b):
        return a if a.discr == 0 else b

    def m_Result__cloned(self, c, r):
        return Ok(deep_clone(deref(r.f[0]))) if r.discr == 0 else r

    m_Result__copied = m_Result__cloned

    def m_Iterator__skip_while(self, c, it, f):
        it = self._into_iter_value(it)
        state = {'skipping': True}

        def nxt():
            while True:
                x = it.nxt()
                if x is DONE:
                    return DONE
                if state['skipping'] and self.ctx.branch(self.call_closure(f, ref_to(x))):
                    continue
                state['skipping'] = False
                return x
        return RIter(nxt, kind='skip_while')

    def m_Iterator__step_by(self, c, it, n):
        xs = drain(self._into_iter_value(it))
        if not isinstance(n, int) or n == 0:
            raise Unsupported('step_by with symbolic or zero step')
        return list_iter(xs[::n])

    def m_Iterator__inspect(self, c, it, f):
        it = self._into_iter_value(it)

        def nxt():
            x = it.nxt()
            if x is not DONE:
                self.call_closure(f, ref_to(x))
            return x
        return RIter(nxt, kind='inspect')

    def m_Iterator__fuse(self, c, it):
        return self._into_iter_value(it)

    def m_Iterator__scan(self, c, it, init, f):
        it = self._into_iter_value(it)
        st = [init]
        done = [False]

        def nxt():
            if done[0]:
                return DONE
            x = it.nxt()
            if x is DONE:
                return DONE
            r = self.call_closure(f, Ref(st, 0), x)
            if r.discr == 0:
                done[0] = True
                return DONE
            return r.f[0]
        return RIter(nxt, kind='scan')

    def m_Iterator__reduce(self, c, it, f):
        xs = drain(self._into_iter_value(it))
        if not xs:
            return NONE()
        acc = xs[0]
        for x in xs[1:]:
            acc = self.call_closure(f, acc, x)
        return Some(acc)

    def m_Iterator__product(self, c, it):
        it = self._into_iter_value(it)
        k = c.rindex('::product::<')
        ty = norm_ty(c[k + 12:-1])
        if ty == 'f64':
            acc = ONE
            for x in drain(it):
                acc = f_mul(acc, deref(x))
            return acc
        if ty in INT_TYS:
            acc = 1
            for x in drain(it):
                acc = self.it.binop('Mul', acc, deref(x), ty)
            return acc
        raise Unsupported('product of ' + ty)

    def m_Iterator__try_fold(self, c, it, init, f):
        it = self._into_iter_value(deref(it) if isinstance(deref(it), RIter) else it)
        acc = init
        while True:
            x = it.nxt()
            if x is DONE:
                # Try::from_output: the closure's own return type decides Option / Result; infer it from the last value
                k = c.rindex('::try_fold::<')
                ga = split_top(c[k + 13:-1])
                rty = ga[-1] if ga else ''
                return Some(acc) if ty_head(norm_ty(rty)) == 'Option' else Ok(acc)
            r = self.call_closure(f, acc, x)
            if (r.ty == 'Option' and r.discr == 0) or (r.ty == 'Result' and r.discr == 1):
                return r
            acc = r.f[0]

    def m_Iterator__try_for_each(self, c, it, f):
        it = self._into_iter_value(deref(it) if isinstance(deref(it), RIter) else it)
        last = None
        while True:
            x = it.nxt()
            if x is DONE:
                k = c.rindex('::try_for_each::<')
                ga = split_top(c[k + 17:-1])
                rty = ga[-1] if ga else ''
                return Some(UNIT) if ty_head(norm_ty(rty)) == 'Option' else Ok(UNIT)
            r = self.call_closure(f, x)
            if (r.ty == 'Option' and r.discr == 0) or (r.ty == 'Result' and r.discr == 1):
                return r

    def _by_key(self, it, f, want_max):
        xs = drain(self._into_iter_value(it))
        if not xs:
            return NONE()
        best, bk = xs[0], self.call_closure(f, ref_to(xs[0]))
        for x in xs[1:]:
            k = self.call_closure(f, ref_to(x))
            if want_max:
                take = not self.ctx.branch(val_lt(k, bk))          # max_by_key keeps the last maximum
            else:
                take = self.ctx.branch(val_lt(k, bk))              # min_by_key keeps the first minimum
            if take:
                best, bk = x, k
        return Some(best)

    def m_Iterator__max_by_key(self, c, it, f):
        return self._by_key(it, f, True)

    def m_Iterator__min_by_key(self, c, it, f):
        return self._by_key(it, f, False)

    def m_Iterator__unzip(self, c, it):
        xs = drain(self._into_iter_value(it))
        k = c.rindex('::unzip::<')
        ga = [norm_ty(t) for t in split_top(c[k + 10:-1])]
        outs = []
        for j, t in enumerate(ga[-2:]):
            vals = [deref(x).f[j] for x in xs]
            h = ty_head(t)
            if h == 'Vec':
                outs.append(RVec(vals))
            elif h in ('HashSet', 'BTreeSet'):
                m = RMap('hash' if h == 'HashSet' else 'btree', True)
                for v in vals:
                    self.map_insert(m, v, UNIT)
                outs.append(m)
            else:
                raise Unsupported('unzip into ' + t)
        return Agg(outs)

    def m_Iterator__partition(self, c, it, f):
        xs = drain(self._into_iter_value(it))
        a, b = [], []
        for x in xs:
            (a if self.ctx.branch(self.call_closure(f, ref_to(x))) else b).append(x)
        return Agg([RVec(a), RVec(b)])

    def m_Iterator__eq(self, c, a, b):
        xs, ys = drain(self._into_iter_value(a)), drain(self._into_iter_value(b))
        if len(xs) != len(ys):
            return False
        return b_and(*[val_eq(x, y) for x, y in zip(xs, ys)])

    def m_Iterator__rposition(self, c, it, f):
        xs = drain(self._into_iter_value(deref(it) if isinstance(deref(it), RIter) else it))
        for i in range(len(xs) - 1, -1, -1):
            if self.ctx.branch(self.call_closure(f, xs[i])):
                return Some(i)
        return NONE()

    def m_Iterator__is_sorted(self, c, it):
        xs = drain(self._into_iter_value(it))
        return b_and(*[b_not(val_lt(y, x)) for x, y in zip(xs, xs[1:])])

    def m_DoubleEndedIterator__next_back(self, c, it):
        r = deref(it)
        if r.back is not None:
            return opt(r.back())
        xs = drain(r)
        if not xs:
            r.nxt = lambda: DONE
            return NONE()
        last = xs.pop()
        rest = iter(xs)
        r.nxt = lambda: next(rest, DONE)
        return Some(last)

    def m_DoubleEndedIterator__rfind(self, c, it, f):
        xs = drain(self._into_iter_value(deref(it) if isinstance(deref(it), RIter) else it))
        for x in reversed(xs):
            if self.ctx.branch(self.call_closure(f, ref_to(x))):
                return Some(x)
        return NONE()

    def m_ExactSizeIterator__len(self, c, it):
        r = deref(it)
        xs = drain(r)
        rest = iter(xs)
        r.nxt = lambda: next(rest, DONE)
        return len(xs)

    def m_Vec__resize(self, c, v, n, x):
        vec = deref(v)
        if not isinstance(n, int):
            raise Unsupported('resize to a symbolic length')
        if n <= len(vec.items):
            del vec.items[n:]
        else:
            vec.items.extend(deep_clone(x) for _ in range(n - len(vec.items)))
        return UNIT

    def m_Vec__split_off(self, c, v, at):
        vec = deref(v)
        if not isinstance(at, int):
            raise Unsupported('split_off at a symbolic index')
        if at > len(vec.items):
            raise RustPanic('split_off out of bounds')
        tail = vec.items[at:]
        del vec.items[at:]
        return RVec(tail)

    def m_slice__sort_by_key(self, c, v, f):
        s = items_of(v)
        keyed = [(self.call_closure(f, ref_to(x)), x) for x in s.items]
        res = self.fork_sort(keyed, lambda a, b: val_lt(a[0], b[0]))
        out = [x for _, x in res]
        if isinstance(s, SliceView):
            s.vec.items[s.lo:s.hi] = out
        else:
            s.items[:] = out
        return UNIT

    m_slice__sort_unstable_by_key = m_slice__sort_by_key
    m_slice__sort_by_cached_key = m_slice__sort_by_key

    def m_slice__first_mut(self, c, v):
        s = items_of(v)
        if not s.items:
            return NONE()
        return Some(Ref(s.vec.items, s.lo) if isinstance(s, SliceView) else Ref(s.items, 0))

    def m_slice__last_mut(self, c, v):
        s = items_of(v)
        if not s.items:
            return NONE()
        return Some(Ref(s.vec.items, s.hi - 1) if isinstance(s, SliceView) else Ref(s.items, len(s.items) - 1))

    def m_slice__get_mut(self, c, v, i):
        return self.m_slice__get(c, v, i)

    def m_slice__split_first(self, c, v):
        s = items_of(v)
        if not s.items:
            return NONE()
        base, lo, hi = (s.vec, s.lo, s.hi) if isinstance(s, SliceView) else (s, 0, len(s.items))
        return Some(Agg([Ref(base.items, lo), SliceView(base, lo + 1, hi)]))

    def m_slice__split_last(self, c, v):
        s = items_of(v)
        if not s.items:
            return NONE()
        base, lo, hi = (s.vec, s.lo, s.hi) if isinstance(s, SliceView) else (s, 0, len(s.items))
        return Some(Agg([Ref(base.items, hi - 1), SliceView(base, lo, hi - 1)]))

    def m_slice__windows(self, c, v, n):
        s = items_of(v)
        base, lo, hi = (s.vec, s.lo, s.hi) if isinstance(s, SliceView) else (s, 0, len(s.items))
        if not isinstance(n, int) or n == 0:
            raise Unsupported('windows with symbolic or zero size')
        return list_iter([SliceView(base, i, i + n) for i in range(lo, hi - n + 1)])

    def m_slice__chunks_exact(self, c, v, n):
        s = items_of(v)
        base, lo, hi = (s.vec, s.lo, s.hi) if isinstance(s, SliceView) else (s, 0, len(s.items))
        if not isinstance(n, int) or n == 0:
            raise Unsupported('chunks_exact with symbolic or zero size')
        return list_iter([SliceView(base, i, i + n) for i in range(lo, hi - n + 1, n)])

    def m_slice__ends_with(self, c, v, p):
        a, b = items_of(v).items, items_of(p).items
        if len(b) > len(a):
            return False
        return b_and(*[val_eq(x, y) for x, y in zip(a[len(a) - len(b):], b)])

    def m_slice__is_sorted(self, c, v):
        xs = items_of(v).items
        return b_and(*[b_not(val_lt(y, x)) for x, y in zip(xs, xs[1:])])

    def m_slice__fill(self, c, v, x):
        s = items_of(v)
        base, lo, hi = (s.vec, s.lo, s.hi) if isinstance(s, SliceView) else (s, 0, len(s.items))
        for i in range(lo, hi):
            base.items[i] = deep_clone(x)
        return UNIT

    def m_Vec__reserve(self, c, v, n):
        return UNIT

    m_Vec__shrink_to_fit = lambda self, c, v: UNIT
    m_Vec__reserve_exact = m_Vec__reserve

    def m_Vec__capacity(self, c, v):
        return len(deref(v).items)

    def m_Vec__dedup_by_key(self, c, v, f):
        vec = deref(v)
        out = []
        for i in range(len(vec.items)):
            if out and self.ctx.branch(val_eq(self.call_closure(f, Ref(vec.items, i)), self.call_closure(f, ref_to(out[-1])))):
                continue
            out.append(vec.items[i])
        vec.items[:] = out
        return UNIT

    m_Vec__retain_mut = lambda self, c, v, f: self.m_Vec__retain(c, v, f)

    def m_HashMap__retain(self, c, m, f):
        mm = deref(m)
        keep = []
        for e in list(self.map_iter_order(mm)):
            if self.ctx.branch(self.call_closure(f, ref_to(e[0]), Ref(e, 1))):
                keep.append(e)
        mm.entries[:] = [e for e in mm.entries if any(e is k for k in keep)]
        return UNIT

    m_BTreeMap__retain = m_HashMap__retain

    def m_HashSet__retain(self, c, m, f):
        mm = deref(m)
        mm.entries[:] = [e for e in list(mm.entries) if self.ctx.branch(self.call_closure(f, ref_to(e[0])))]
        return UNIT

    m_BTreeSet__retain = m_HashSet__retain

    def m_HashMap__remove_entry(self, c, m, k):
        mm = deref(m)
        i = self.map_find(mm, k)
        if i < 0:
            return NONE()
        e = mm.entries.pop(i)
        return Some(Agg([e[0], e[1]]))

    m_BTreeMap__remove_entry = m_HashMap__remove_entry

    def m_HashMap__get_key_value(self, c, m, k):
        mm = deref(m)
        i = self.map_find(mm, k)
        if i < 0:
            return NONE()
        return Some(Agg([Ref(mm.entries[i], 0), Ref(mm.entries[i], 1)]))

    m_BTreeMap__get_key_value = m_HashMap__get_key_value

    def m_BTreeMap__first_key_value(self, c, m):
        mm = deref(m)
        if not mm.entries:
            return NONE()
        return Some(Agg([Ref(mm.entries[0], 0), Ref(mm.entries[0], 1)]))

    def m_BTreeMap__last_key_value(self, c, m):
        mm = deref(m)
        if not mm.entries:
            return NONE()
        return Some(Agg([Ref(mm.entries[-1], 0), Ref(mm.entries[-1], 1)]))

    def m_BTreeMap__pop_first(self, c, m):
        mm = deref(m)
        if not mm.entries:
            return NONE()
        e = mm.entries.pop(0)
        return Some(Agg([e[0], e[1]]))

    def m_BTreeMap__pop_last(self, c, m):
        mm = deref(m)
        if not mm.entries:
            return NONE()
        e = mm.entries.pop()
        return Some(Agg([e[0], e[1]]))

    def m_BTreeSet__pop_first(self, c, m):
        mm = deref(m)
        return Some(mm.entries.pop(0)[0]) if mm.entries else NONE()

    def m_BTreeSet__pop_last(self, c, m):
        mm = deref(m)
        return Some(mm.entries.pop()[0]) if mm.entries else NONE()

    def m_f64__round(self, c, x):
        x = deref(x)
        if x.tag != 'fin':
            return x
        if isinstance(x.r, Fraction):
            import math
            a = abs(x.r)
            n = math.floor(a + Fraction(1, 2))       # half away from zero
            return fin(Fraction(-n if x.r < 0 else n))
        t = z3real(x.r)
        up = z3.ToReal(z3.ToInt(t + z3.Q(1, 2)))
        dn = -z3.ToReal(z3.ToInt(-t + z3.Q(1, 2)))
        return FV('fin', z3.If(t >= 0, up, dn))

    def m_f64__trunc(self, c, x):
        x = deref(x)
        if x.tag != 'fin':
            return x
        return self.ctx.branch(f_cmp('ge', x, ZERO)) and f_floor(x) or f_ceil(x)

    def m_f64__signum(self, c, x):
        x = deref(x)
        if x.tag == 'nan':
            return x
        if x.tag == 'pinf':
            return ONE
        if x.tag == 'ninf':
            return fin(-1)
        # +0.0 -> 1.0, -0.0 -> -1.0: the R-model has no signed zero, zero counts as positive
        return ONE if self.ctx.branch(f_cmp('ge', x, ZERO)) else fin(-1)

    def m_f64__recip(self, c, x):
        return f_div(ONE, deref(x))

    def m_f64__mul_add(self, c, x, a, b):
        return f_add(f_mul(deref(x), deref(a)), deref(b))

    def m_f64__clamp(self, c, x, lo, hi):
        x, lo, hi = deref(x), deref(lo), deref(hi)
        if self.ctx.branch(f_cmp('lt', x, lo)):
            return lo
        if self.ctx.branch(f_cmp('gt', x, hi)):
            return hi
        return x

    def m_f64__is_sign_negative(self, c, x):
        x = deref(x)
        if x.tag in ('ninf',):
            return True
        if x.tag in ('pinf', 'nan'):
            return False
        return self.ctx.branch(f_cmp('lt', x, ZERO))       # -0.0 is not represented in the R-model

    def m_f64__is_sign_positive(self, c, x):
        return not self.m_f64__is_sign_negative(c, x)

    def m_f64__copysign(self, c, x, s):
        neg = self.m_f64__is_sign_negative(c, s)
        a = f_abs(deref(x))
        return f_neg(a) if neg else a

    def m_String__push(self, c, s, ch):
        deref(s).s += chr(ch) if isinstance(ch, int) else ch
        return UNIT

    def m_String__with_capacity(self, c, n):
        return RString('')

    def m_String__as_bytes(self, c, s):
        return Opaque('bytes', deref(s).s.encode())

    def m_str__find(self, c, s, pat):
        s = deref(s)
        s = s.s if isinstance(s, RString) else s
        pat = deref(pat)
        pat = pat.s if isinstance(pat, RString) else (chr(pat) if isinstance(pat, int) else pat)
        if not isinstance(pat, str):
            raise Unsupported('str::find with a closure pattern')
        i = s.find(pat)
        return NONE() if i < 0 else Some(len(s[:i].encode()))

    def m_str__replace(self, c, s, a, b):
        s, a, b = [x.s if isinstance(x, RString) else (chr(x) if isinstance(x, int) else x) for x in (deref(s), deref(a), deref(b))]
        return RString(s.replace(a, b))

    def m_str__split_once(self, c, s, pat):
        s = deref(s)
        s = s.s if isinstance(s, RString) else s
        pat = deref(pat)
        pat = pat.s if isinstance(pat, RString) else (chr(pat) if isinstance(pat, int) else pat)
        if not isinstance(pat, str) or pat not in s:
            if isinstance(pat, str):
                return NONE()
            raise Unsupported('split_once with a closure pattern')
        a, b = s.split(pat, 1)
        return Some(Agg([a, b]))

    def m_str__rsplit(self, c, s, pat):
        s = deref(s)
        s = s.s if isinstance(s, RString) else s
        pat = pat if isinstance(pat, str) else chr(pat)
        return list_iter(list(reversed(s.split(pat))))

    def m_str__repeat(self, c, s, n):
        s = deref(s)
        return RString((s.s if isinstance(s, RString) else s) * n)

    def m_str__to_ascii_uppercase(self, c, s):
        s = deref(s)
        s = s.s if isinstance(s, RString) else s
        return RString(''.join(ch.upper() if ord(ch) < 128 else ch for ch in s))

    def m_str__to_ascii_lowercase(self, c, s):
        s = deref(s)
        s = s.s if isinstance(s, RString) else s
        return RString(''.join(ch.lower() if ord(ch) < 128 else ch for ch in s))

    def m_str__eq_ignore_ascii_case(self, c, a, b):
        a, b = [x.s if isinstance(x, RString) else x for x in (deref(a), deref(b))]
        low = lambda t: ''.join(ch.lower() if ord(ch) < 128 else ch for ch in t)
        return low(a) == low(b)

    def m_str__trim_matches(self, c, s, pat):
        s = deref(s)
        s = s.s if isinstance(s, RString) else s
        if isinstance(pat, int):
            return s.strip(chr(pat))
        if isinstance(pat, str) and len(pat) == 1:
            return s.strip(pat)
        raise Unsupported('trim_matches with a non-char pattern')

    # ------------------------------------------------------------------ chrono (external): instants are opaque tokens
    def m_DateTime__to_rfc3339(self, c, dt):
        dt = deref(dt)
        toks = self.ctx.notes.setdefault('datetokens', {})
        tok = f'\u00a7d{len(toks)}\u00a7'
        toks[tok] = dt
        return RString(tok)

    def m_DateTime__to_rfc3339_opts(self, c, dt, secform, use_z):
        # an instant is an integer number of nanoseconds; a coarser seconds format truncates it
        dt = deref(dt)
        unit = {0: 10 ** 9, 1: 10 ** 6, 2: 10 ** 3, 3: 1, 4: 1}[deref(secform).discr]
        if unit != 1:
            t = dt.f[0]
            dt = Agg([(t / unit) * unit if not isinstance(t, int) else (t // unit) * unit], 'DateTime')
        return self.m_DateTime__to_rfc3339(c, dt)

    def m_DateTime__parse_from_rfc3339(self, c, s):
        s = deref(s)
        s = s.s if isinstance(s, RString) else s
        toks = self.ctx.notes.get('datetokens', {})
        if s in toks:
            return Ok(toks[s])
        return Err(Opaque('chrono::ParseError', s))

    def m_DateTime__with_timezone(self, c, dt, tz):
        return deref(dt)

    def m_Local__now(self, c):
        n = self.ctx.notes.setdefault('now', [0])
        n[0] += 1
        return Agg([z3.Int(f'now{n[0]}')], 'DateTime')

    # ------------------------------------------------------------------ ocipkg (external): an artifact is a list of (descriptor, blob)
    # contract modelled: add_layer appends a descriptor (media type, digest of the blob, annotations) and stores the blob;
    # digests are equal iff the blobs are equal; build/reopen is the identity; get_layers returns (descriptor, blob) in manifest order.
    def _blob_of(self, b):
        b = deref(b)
        if isinstance(b, SliceView):
            b = b.vec
        if not isinstance(b, Blob):
            raise Unsupported('layer blob that is not an encoded message')
        return b

    def m_Message__encode_to_vec(self, c, msg):
        ty = parse_callee(c).self_ty
        sub = WireBuf()
        self.it.run_body(self._msg_body('encode_raw', ty), [msg if isinstance(msg, Ref) else ref_to(msg), ref_to(sub)])
        return Blob(sub.records)

    def m_Message__decode(self, c, buf):
        ty = parse_callee(c).self_ty
        b = self._blob_of(buf)
        m = self.default_of(ty)
        r = self._merge_message_into(ty, ref_to(m), b.records)
        return Ok(m) if r.vname == 'Ok' else r

    def _digest_of_blob(self, b):
        """contract of SHA-256 content addressing: one symbolic 64-bit digest per hashed blob, equal to an earlier one iff the blobs are equal"""
        reg = self.ctx.notes.setdefault('digests', [])
        dig = z3.BitVec(f'digest{len(reg)}', 64)
        for other, odig in reg:
            self.ctx.assume((dig == odig) == z3bool(records_eq(b.records, other.records)))
        reg.append((b, dig))
        return dig

    def m_Digest__from_buf_sha256(self, c, buf):
        b = self._blob_of(buf)
        n = len(self.ctx.notes.get('digests', []))
        return SymString(f'sha256:<blob {n}>', self._digest_of_blob(b))

    def m_OciArtifactBuilder__add_layer(self, c, builder, media_type, blob, annotations):
        st = deref(builder)
        b = self._blob_of(blob)
        k = len(st.f[1].items)
        dig = self._digest_of_blob(b)
        desc = Agg([deep_clone(deref(media_type)), SymString(f'sha256:<layer {k}>', dig), Some(deep_clone(deref(annotations)))], 'Descriptor')
        st.f[1].items.append(desc)
        st.f[2].append((desc, b, dig))
        return Ok(deep_clone(desc))

    def m_OciArchiveBuilder__new_unnamed(self, c, path):
        return Ok(Opaque('OciArchiveBuilder', 'unnamed'))

    def m_OciArtifactBuilder__new(self, c, layout, artifact_type):
        # contract: an empty artifact of the given artifact type over the given image layout
        return Ok(Agg([Some(deep_clone(deref(artifact_type))), RVec([]), []], 'OciArtifactBuilder'))

    def m_OciArtifactBuilder__build(self, c, builder):
        st = deref(builder)
        return Ok(Agg([st.f[0], st.f[1], st.f[2]], 'OciArtifact'))

    def m_OciArtifact__get_layers(self, c, art):
        st = deref(art)
        return Ok(RVec([Agg([deep_clone(d), b], '(Descriptor, Vec<u8>)') for d, b, _ in st.f[2]]))

    def m_OciArtifact__get_manifest(self, c, art):
        st = deref(art)
        return Ok(Agg([deep_clone(st.f[0]), RVec([deep_clone(d) for d in st.f[1].items])], 'ImageManifest'))

    def m_Image__get_manifest(self, c, art):
        return self.m_OciArtifact__get_manifest(c, art)

    def m_ImageManifest__artifact_type(self, c, m):
        return Ref(deref(m).f, 0)

    def m_ImageManifest__layers(self, c, m):
        return Ref(deref(m).f, 1)

    def m_Descriptor__media_type(self, c, d):
        return Ref(deref(d).f, 0)

    def m_Descriptor__digest(self, c, d):
        return Ref(deref(d).f, 1)

    def m_Descriptor__annotations(self, c, d):
        return Ref(deref(d).f, 2)

    def m_Digest__new(self, c, s):
        s = deref(s)
        if isinstance(s, SymString):
            return Ok(s)
        t = s.s if isinstance(s, RString) else s
        if re.fullmatch(r'[a-z0-9]+:[0-9a-f]+', t):
            return Ok(RString(t))
        return Err(Opaque('anyhow::Error', 'invalid digest'))

    # ------------------------------------------------------------------ prost::encoding as abstract wire records
    # A buffer is a WireBuf: records (tag, wire_type, kind, payload). Byte-level varint/fixed coding lives in the
    # external `prost`/`bytes` crates and is not modelled; the derive output (tags, kinds, labels, dispatch) is executed.
    SCALAR_WT = {'double': 1, 'float': 5, 'uint64': 0, 'int64': 0, 'int32': 0, 'uint32': 0, 'bool': 0, 'string': 2, 'bytes': 2,
                 'sint32': 0, 'sint64': 0, 'fixed64': 1, 'fixed32': 5, 'sfixed64': 1, 'sfixed32': 5}

    @staticmethod
    def _fn_generics(c):
        k = c.index('::<')
        inner = c[k + 3:]
        inner = inner[:inner.rindex('>')]
        return [x.strip() for x in split_top(inner)]

    def _msg_body(self, method, ty, mut=False):
        want = ('&mut ' if mut else '&') + ty
        hits = [b for b in self.it.mir.by_method.get(method, []) if b.param_tys and norm_ty(b.param_tys[0]) == norm_ty(want)
                and b.span and b.span[0].endswith('ommx.v1.rs')]
        if len(hits) != 1:
            raise Unsupported(f'prost impl {method} for {ty}: {len(hits)} bodies')
        return hits[0]

    def m_DecodeError__push(self, c, err, msg, field):
        return UNIT

    def _enc_kind(self, c):
        return c.split('prost::encoding::')[1].split('::')[0] if 'prost::encoding::' in c else None

    def _wire_encode(self, c, tag, val, buf):
        kind = self._enc_kind(c)
        deref(buf).records.append((tag, self.SCALAR_WT[kind], kind, deep_clone(deref(val))))
        return UNIT

    def _wire_encode_packed(self, c, tag, vals, buf):
        kind = self._enc_kind(c)
        items = list(items_of(vals).items)
        if items:
            deref(buf).records.append((tag, 2, 'packed-' + kind, [deep_clone(x) for x in items]))
        return UNIT

    def _wire_encode_repeated(self, c, tag, vals, buf):
        kind = self._enc_kind(c)
        for x in items_of(vals).items:
            deref(buf).records.append((tag, self.SCALAR_WT[kind], kind, deep_clone(deref(x))))
        return UNIT

    def _wire_len(self, c, *a):
        return 1      # lengths are not modelled (byte-level)

    def _wire_take(self, buf, wt_expected, wt):
        b = deref(buf)
        if wt.discr != wt_expected:
            return None
        if b.pos >= len(b.records):
            return None
        r = b.records[b.pos]
        b.pos += 1
        return r

    def _wire_merge(self, c, wt, val, buf, ctx):
        kind = self._enc_kind(c)
        r = self._wire_take(buf, self.SCALAR_WT[kind], wt)
        if r is None or r[2] != kind:
            return Err(Opaque('DecodeError', 'wire type'))
        val.set(deep_clone(r[3]))
        return Ok(UNIT)

    def _wire_merge_repeated(self, c, wt, vals, buf, ctx):
        kind = self._enc_kind(c)
        b = deref(buf)
        if wt.discr == 2 and b.pos < len(b.records) and b.records[b.pos][2] == 'packed-' + kind:
            r = b.records[b.pos]
            b.pos += 1
            deref(vals).items.extend(deep_clone(x) for x in r[3])
            return Ok(UNIT)
        r = self._wire_take(buf, self.SCALAR_WT[kind], wt)
        if r is None or r[2] != kind:
            return Err(Opaque('DecodeError', 'wire type'))
        deref(vals).items.append(deep_clone(r[3]))
        return Ok(UNIT)

    def m_message__encode(self, c, tag, msg, buf):
        sub = WireBuf()
        ty = self._fn_generics(c)[0]
        self.it.run_body(self._msg_body('encode_raw', ty), [msg if isinstance(msg, Ref) else ref_to(msg), ref_to(sub)])
        deref(buf).records.append((tag, 2, 'message', sub.records))
        return UNIT

    def m_message__encode_repeated(self, c, tag, msgs, buf):
        for m in items_of(msgs).items:
            self.m_message__encode(c, tag, m if isinstance(m, Ref) else ref_to(m), buf)
        return UNIT

    def m_message__encoded_len(self, c, tag, msg):
        return 1

    def m_message__encoded_len_repeated(self, c, tag, msgs):
        return len(items_of(msgs).items)

    def _merge_message_into(self, ty, target_ref, records, skipped=None):
        sub = WireBuf(list(records))
        if skipped is not None:
            sub.skipped = skipped
        while sub.pos < len(sub.records):
            tag, wt, kind, payload = sub.records[sub.pos]
            wte = Enum('WireType', wt, {0: 'Varint', 1: 'SixtyFourBit', 2: 'LengthDelimited', 5: 'ThirtyTwoBit'}.get(wt, 'Varint'), [])
            before = sub.pos
            r = self.it.run_body(self._msg_body('merge_field', ty, True), [target_ref, tag, wte, ref_to(sub), Opaque('DecodeContext')])
            if r.vname != 'Ok':
                return r
            if sub.pos == before:
                raise Inconclusive('merge_field consumed nothing')
        return Ok(UNIT)

    def m_message__merge(self, c, wt, msg, buf, ctx):
        r = self._wire_take(buf, 2, wt)
        if r is None or r[2] != 'message':
            return Err(Opaque('DecodeError', 'wire type'))
        return self._merge_message_into(self._fn_generics(c)[0], msg, r[3])

    def m_message__merge_repeated(self, c, wt, msgs, buf, ctx):
        r = self._wire_take(buf, 2, wt)
        if r is None or r[2] != 'message':
            return Err(Opaque('DecodeError', 'wire type'))
        ty = self._fn_generics(c)[0]
        m = self.default_of(ty)
        res = self._merge_message_into(ty, ref_to(m), r[3])
        if res.vname != 'Ok':
            return res
        deref(msgs).items.append(m)
        return Ok(UNIT)

    def m_encoding__skip_field(self, c, wt, tag, buf, ctx):
        b = deref(buf)
        if b.pos < len(b.records):
            b.skipped.append(b.records[b.pos])
            b.pos += 1
        return Ok(UNIT)

    def m_hash_map__encode(self, c, kenc, klen, venc, vlen, tag, m, buf):
        mm = deref(m)
        for k, v in self.map_iter_order(mm):
            sub = WireBuf()
            # prost skips default keys / values inside a map entry
            if not self._is_default(k):
                self.call_closure(kenc, 1, ref_to(k), ref_to(sub))
            if not self._is_default(v):
                self.call_closure(venc, 2, ref_to(v), ref_to(sub))
            deref(buf).records.append((tag, 2, 'map-entry', sub.records))
        return UNIT

    def _is_default(self, v):
        v = deref(v)
        if isinstance(v, FV):
            r = f_cmp('eq', v, ZERO)
        elif isinstance(v, RString):
            r = v.s == ''
        elif isinstance(v, bool):
            r = not v
        elif isinstance(v, int):
            r = v == 0
        elif is_bv(v):
            r = v == z3.BitVecVal(0, v.size())
        elif isinstance(v, z3.BoolRef):
            r = z3.Not(v)
        else:
            return False
        return self.ctx.branch(r)

    def m_hash_map__encoded_len(self, c, klen, vlen, tag, m):
        return len(deref(m).entries)

    def m_hash_map__merge(self, c, kmerge, vmerge, m, buf, ctx):
        b = deref(buf)
        if b.pos >= len(b.records) or b.records[b.pos][2] != 'map-entry':
            return Err(Opaque('DecodeError', 'wire type'))
        r = b.records[b.pos]
        b.pos += 1
        ktys = self._fn_generics(c)
        key = self.default_of(ktys[0])
        val = self.default_of(ktys[1])
        kcell, vcell = [key], [val]
        sub = WireBuf(list(r[3]))
        while sub.pos < len(sub.records):
            tag, wt, kind, payload = sub.records[sub.pos]
            wte = Enum('WireType', wt, 'x', [])
            if tag == 1:
                rr = self.call_closure(kmerge, wte, Ref(kcell, 0), ref_to(sub), ctx)
            elif tag == 2:
                rr = self.call_closure(vmerge, wte, Ref(vcell, 0), ref_to(sub), ctx)
            else:
                sub.pos += 1
                continue
            if rr.vname != 'Ok':
                return rr
        self.map_insert(deref(m), kcell[0], vcell[0])
        return Ok(UNIT)

    # ------------------------------------------------------------------ Box / misc
    def m_Box__new(self, c, x):
        return x

    def m_Box__new_uninit(self, c):
        # vec![..] lowering: Box<MaybeUninit<[T; N]>> written through a raw pointer, then turned into a Vec
        md = Agg([UNINIT], 'MaybeDangling')
        mu = Agg([UNIT, Agg([md], 'ManuallyDrop')], 'MaybeUninit')
        return Agg([Agg([Ref([mu], 0)], 'Unique')], 'BoxUninit')

    def m_boxed__box_assume_init_into_vec_unsafe(self, c, b):
        content = b.f[0].f[0].get().f[1].f[0].f[0]
        if not isinstance(content, RVec):
            raise Unsupported('vec! lowering: unexpected content ' + repr(content))
        return RVec(list(content.items))

    def m_Arc__new(self, c, x):
        return x

    m_Rc__new = m_Arc__new

    def m_Fn__call(self, c, f, args):
        return self.call_closure(f, *args.f)

    m_FnMut__call_mut = m_FnOnce__call_once = m_Fn__call

    # ------------------------------------------------------------------ iterators
    def _into_iter_value(self, v):
        """IntoIterator::into_iter for a runtime value"""
        if isinstance(v, RIter):
            return v
        if isinstance(deref(v), Agg) and deref(v).ty == 'ChunkBy':
            return list_iter(list(deref(v).f[0].items))
        if isinstance(v, Ref):
            t = deref(v)
            if isinstance(t, (RVec, SliceView)):
                return ref_iter(t)
            if isinstance(t, RMap):
                return self._kv_iter(t)
            if isinstance(t, Enum) and t.ty == 'Option':
                return list_iter([Ref(t.f, 0)] if t.discr == 1 else [])
            if isinstance(t, RIter):
                return t
            raise Unsupported(f'into_iter on &{type(t).__name__}')
        if isinstance(v, RVec):
            return list_iter(list(v.items))
        if isinstance(v, SliceView):
            return ref_iter(v)
        if isinstance(v, RMap):
            return self._kv_iter(v, by_value=True)
        if isinstance(v, Enum) and v.ty == 'Option':
            return list_iter([v.f[0]] if v.discr == 1 else [])
        if isinstance(v, Agg) and v.ty in ('Range', 'RangeInclusive'):
            a, b = v.f[0], v.f[1]
            if not (isinstance(a, int) and isinstance(b, int)):
                raise Unsupported('symbolic range')
            st = [a]
            lim = b + (1 if v.ty == 'RangeInclusive' else 0)

            def nxt():
                if st[0] < lim:
                    st[0] += 1
                    return st[0] - 1
                return DONE
            return RIter(nxt, kind='range')
        raise Unsupported(f'into_iter on {type(v).__name__} {v!r}')

    def m_IntoIterator__into_iter(self, c, v):
        return self._into_iter_value(v)

    m_Iterator__into_iter = m_IntoIterator__into_iter

    def m_Iterator__next(self, c, it):
        it = deref(it)
        if isinstance(it, Agg) and it.ty in ('Range', 'RangeInclusive'):
            a, b = it.f[0], it.f[1]
            lim = b + 1 if it.ty == 'RangeInclusive' else b
            if it.ty == 'RangeInclusive' and len(it.f) > 2 and it.f[2]:
                return NONE()
            if a < lim:
                it.f[0] = a + 1
                return Some(a)
            return NONE()
        return opt(it.nxt())

    def m_Iterator__by_ref(self, c, it):
        return it

    def m_Iterator__map(self, c, it, f):
        it = self._into_iter_value(it)

        def nxt():
            x = it.nxt()
            return DONE if x is DONE else self.call_closure(f, x)
        return RIter(nxt, kind='map')

    def m_Iterator__filter(self, c, it, f):
        it = self._into_iter_value(it)

        def nxt():
            while True:
                x = it.nxt()
                if x is DONE:
                    return DONE
                if self.ctx.branch(self.call_closure(f, ref_to(x))):
                    return x
        return RIter(nxt, kind='filter')

    def m_Iterator__filter_map(self, c, it, f):
        it = self._into_iter_value(it)

        def nxt():
            while True:
                x = it.nxt()
                if x is DONE:
                    return DONE
                r = self.call_closure(f, x)
                if r.discr == 1:
                    return r.f[0]
        return RIter(nxt, kind='filter_map')

    def m_Iterator__map_while(self, c, it, f):
        it = self._into_iter_value(it)
        done = [False]

        def nxt():
            if done[0]:
                return DONE
            x = it.nxt()
            if x is DONE:
                return DONE
            r = self.call_closure(f, x)
            if r.discr == 1:
                return r.f[0]
            done[0] = True
            return DONE
        return RIter(nxt, kind='map_while')

    def m_Iterator__take_while(self, c, it, f):
        it = self._into_iter_value(it)
        done = [False]

        def nxt():
            if done[0]:
                return DONE
            x = it.nxt()
            if x is DONE:
                return DONE
            if self.ctx.branch(self.call_closure(f, ref_to(x))):
                return x
            done[0] = True
            return DONE
        return RIter(nxt, kind='take_while')

    def m_Iterator__flat_map(self, c, it, f):
        it = self._into_iter_value(it)
        cur = [None]

        def nxt():
            while True:
                if cur[0] is not None:
                    x = cur[0].nxt()
                    if x is not DONE:
                        return x
                    cur[0] = None
                y = it.nxt()
                if y is DONE:
                    return DONE
                cur[0] = self._into_iter_value(self.call_closure(f, y))
        return RIter(nxt, kind='flat_map')

    def m_Iterator__flatten(self, c, it):
        it = self._into_iter_value(it)
        cur = [None]

        def nxt():
            while True:
                if cur[0] is not None:
                    x = cur[0].nxt()
                    if x is not DONE:
                        return x
                    cur[0] = None
                y = it.nxt()
                if y is DONE:
                    return DONE
                cur[0] = self._into_iter_value(y)
        return RIter(nxt, kind='flatten')

    def m_Iterator__chain(self, c, a, b):
        a = self._into_iter_value(a)
        b = self._into_iter_value(b)
        st = [0]

        def nxt():
            if st[0] == 0:
                x = a.nxt()
                if x is not DONE:
                    return x
                st[0] = 1
            return b.nxt()
        return RIter(nxt, kind='chain')

    def m_Iterator__zip(self, c, a, b):
        a = self._into_iter_value(a)
        b = self._into_iter_value(b)

        def nxt():
            x = a.nxt()
            if x is DONE:
                return DONE
            y = b.nxt()
            if y is DONE:
                return DONE
            return Agg([x, y])
        return RIter(nxt, kind='zip')

    def m_multizip(self, c, tup):
        its = [self._into_iter_value(x) for x in tup.f]

        def nxt():
            out = []
            for i in its:
                x = i.nxt()
                if x is DONE:
                    return DONE
                out.append(x)
            return Agg(out)
        return RIter(nxt, kind='multizip')

    m_itertools__multizip = m_multizip

    def m_Iterator__enumerate(self, c, it):
        it = self._into_iter_value(it)
        n = [0]

        def nxt():
            x = it.nxt()
            if x is DONE:
                return DONE
            i = n[0]
            n[0] += 1
            return Agg([i, x])
        return RIter(nxt, kind='enumerate')

    def m_Iterator__cloned(self, c, it):
        it = self._into_iter_value(it)

        def nxt():
            x = it.nxt()
            return DONE if x is DONE else deep_clone(deref(x))
        return RIter(nxt, kind='cloned')

    m_Iterator__copied = m_Iterator__cloned

    def m_Iterator__rev(self, c, it):
        it = self._into_iter_value(it)
        return list_iter(list(reversed(drain(it))))

    def m_Iterator__peekable(self, c, it):
        it = self._into_iter_value(it)
        buf = []

        def nxt():
            if buf:
                return buf.pop(0)
            return it.nxt()
        r = RIter(nxt, kind='peekable')
        r.hint = (buf, it)
        return r

    def m_Peekable__peek(self, c, p):
        p = deref(p)
        buf, it = p.hint
        if not buf:
            x = it.nxt()
            if x is DONE:
                return NONE()
            buf.append(x)
        return Some(Ref(buf, 0))

    def m_Iterator__take(self, c, it, n):
        it = self._into_iter_value(it)
        k = [0]

        def nxt():
            if k[0] >= n:
                return DONE
            k[0] += 1
            return it.nxt()
        return RIter(nxt, kind='take')

    def m_Iterator__skip(self, c, it, n):
        it = self._into_iter_value(it)
        for _ in range(n):
            it.nxt()
        return it

    def m_once(self, c, x):
        return list_iter([x])

    m_iter__once = m_once

    def m_iter__empty(self, c):
        return list_iter([])

    m_empty = m_iter__empty

    def m_Iterator__for_each(self, c, it, f):
        it = self._into_iter_value(it)
        while True:
            x = it.nxt()
            if x is DONE:
                return UNIT
            self.call_closure(f, x)

    def m_Iterator__fold(self, c, it, init, f):
        it = self._into_iter_value(it)
        acc = init
        while True:
            x = it.nxt()
            if x is DONE:
                return acc
            acc = self.call_closure(f, acc, x)

    def m_Iterator__all(self, c, it, f):
        it = self._into_iter_value(deref(it) if isinstance(deref(it), RIter) else it)
        while True:
            x = it.nxt()
            if x is DONE:
                return True
            if not self.ctx.branch(self.call_closure(f, x)):
                return False

    def m_Iterator__any(self, c, it, f):
        it = self._into_iter_value(deref(it) if isinstance(deref(it), RIter) else it)
        while True:
            x = it.nxt()
            if x is DONE:
                return False
            if self.ctx.branch(self.call_closure(f, x)):
                return True

    def m_Iterator__find(self, c, it, f):
        it = self._into_iter_value(deref(it) if isinstance(deref(it), RIter) else it)
        while True:
            x = it.nxt()
            if x is DONE:
                return NONE()
            if self.ctx.branch(self.call_closure(f, ref_to(x))):
                return Some(x)

    def m_Iterator__find_map(self, c, it, f):
        it = self._into_iter_value(deref(it) if isinstance(deref(it), RIter) else it)
        while True:
            x = it.nxt()
            if x is DONE:
                return NONE()
            r = self.call_closure(f, x)
            if r.discr == 1:
                return r

    def m_Iterator__position(self, c, it, f):
        it = self._into_iter_value(deref(it) if isinstance(deref(it), RIter) else it)
        i = 0
        while True:
            x = it.nxt()
            if x is DONE:
                return NONE()
            if self.ctx.branch(self.call_closure(f, x)):
                return Some(i)
            i += 1

    def m_Iterator__count(self, c, it):
        return len(drain(self._into_iter_value(it)))

    def m_Iterator__last(self, c, it):
        xs = drain(self._into_iter_value(it))
        return Some(xs[-1]) if xs else NONE()

    def m_Iterator__nth(self, c, it, n):
        it = deref(it)
        for _ in range(n):
            if it.nxt() is DONE:
                return NONE()
        return opt(it.nxt())

    def m_Iterator__sum(self, c, it):
        it = self._into_iter_value(it)
        k = c.rindex('::sum::<')
        ty = norm_ty(c[k + 8:-1])
        if ty == 'f64':
            acc = ZERO
            for x in drain(it):
                acc = f_add(acc, deref(x))
            return acc
        if ty in INT_TYS:
            acc = 0
            for x in drain(it):
                acc = self.it.binop('Add', acc, deref(x), ty)
            return acc
        # user type: <T as Sum<Item>>::sum(iter)
        return self.it.call(f'<{ty} as Sum>::sum::<X>', [it], None)

    def m_Iterator__max(self, c, it):
        xs = drain(self._into_iter_value(it))
        if not xs:
            return NONE()
        best = xs[0]
        for x in xs[1:]:
            # max returns the last maximal element
            if not self.ctx.branch(val_lt(x, best)):
                best = x
        return Some(best)

    def m_Iterator__min(self, c, it):
        xs = drain(self._into_iter_value(it))
        if not xs:
            return NONE()
        best = xs[0]
        for x in xs[1:]:
            if self.ctx.branch(val_lt(x, best)):
                best = x
        return Some(best)

    def m_Iterator__min_by(self, c, it, f):
        xs = drain(self._into_iter_value(it))
        if not xs:
            return NONE()
        best = xs[0]
        for x in xs[1:]:
            o = self.call_closure(f, ref_to(best), ref_to(x))
            # min_by keeps the first minimal element: replace only when best > x
            if o.discr == 1:
                best = x
        return Some(best)

    def m_Iterator__max_by(self, c, it, f):
        xs = drain(self._into_iter_value(it))
        if not xs:
            return NONE()
        best = xs[0]
        for x in xs[1:]:
            o = self.call_closure(f, ref_to(best), ref_to(x))
            if o.discr != 1:
                best = x
        return Some(best)

    def m_Itertools__chunk_by(self, c, it, f):
        xs = drain(self._into_iter_value(it))
        groups = []
        for x in xs:
            k = self.call_closure(f, ref_to(x))
            if groups and self.ctx.branch(val_eq(groups[-1][0], k)):
                groups[-1][1].append(x)
            else:
                groups.append((k, [x]))
        return Agg([RVec([Agg([k, list_iter(g)]) for k, g in groups])], 'ChunkBy')

    m_Itertools__group_by = m_Itertools__chunk_by

    def m_Itertools__sorted(self, c, it):
        xs = drain(self._into_iter_value(it))
        return list_iter(self.fork_sort(xs, val_lt))

    def m_Itertools__dedup(self, c, it):
        out = []
        for x in drain(self._into_iter_value(it)):
            if out and self.ctx.branch(val_eq(deref(out[-1]), deref(x))):
                continue
            out.append(x)
        return list_iter(out)

    def m_Itertools__unique(self, c, it):
        out = []
        for x in drain(self._into_iter_value(it)):
            if any(self.ctx.branch(val_eq(deref(y), deref(x))) for y in out):
                continue
            out.append(x)
        return list_iter(out)

    def m_Itertools__sorted_unstable(self, c, it):
        return self.m_Itertools__sorted(c, it)

    def m_Itertools__sorted_by(self, c, it, f):
        xs = drain(self._into_iter_value(it))
        return list_iter(self.fork_sort(xs, lambda a, b: self.call_closure(f, ref_to(a), ref_to(b)).discr == -1))

    def m_Itertools__sorted_by_key(self, c, it, f):
        xs = drain(self._into_iter_value(it))
        return list_iter(self.fork_sort(xs, lambda a, b: val_lt(self.call_closure(f, ref_to(a)), self.call_closure(f, ref_to(b)))))

    def m_Itertools__collect_vec(self, c, it):
        return RVec(drain(self._into_iter_value(it)))

    def m_Itertools__all_unique(self, c, it):
        xs = drain(self._into_iter_value(it))
        for i in range(len(xs)):
            for j in range(i):
                if self.ctx.branch(val_eq(deref(xs[i]), deref(xs[j]))):
                    return False
        return True

    def m_Itertools__all_equal(self, c, it):
        xs = drain(self._into_iter_value(it))
        for i in range(1, len(xs)):
            if not self.ctx.branch(val_eq(deref(xs[i]), deref(xs[0]))):
                return False
        return True

    def m_Extend__extend(self, c, coll, src):
        coll = deref(coll)
        it = self._into_iter_value(src)
        for x in drain(it):
            if isinstance(coll, RVec):
                coll.items.append(x)
            elif coll.is_set:
                self.m_HashSet__insert(c, coll, deref(x) if isinstance(x, Ref) else x)
            else:
                self.map_insert(coll, x.f[0], x.f[1])
        return UNIT

    def m_Sum__sum(self, c, it):
        pc = parse_callee(c)
        if pc.self_ty == 'f64':
            acc = ZERO
            for x in drain(self._into_iter_value(it)):
                acc = f_add(acc, deref(x))
            return acc
        raise Unsupported('Sum::sum for ' + pc.self_ty)

    def collect_into(self, ty, it):
        ty = norm_ty(ty)
        h = ty_head(ty)
        if h == 'Vec':
            return RVec(drain(it))
        if h in ('BTreeSet', 'HashSet'):
            out = RMap('btree' if h == 'BTreeSet' else 'hash', True)
            for x in drain(it):
                self.m_HashSet__insert('', out, x)
            return out
        if h in ('BTreeMap', 'HashMap'):
            out = RMap('btree' if h == 'BTreeMap' else 'hash')
            for x in drain(it):
                self.map_insert(out, x.f[0], x.f[1])
            return out
        if h == 'Result':
            inner = generic_args(ty)[0]
            got = []
            err = [None]

            def nxt():
                x = it.nxt()
                if x is DONE:
                    return DONE
                if x.discr == 1:
                    err[0] = x
                    return DONE
                return x.f[0]
            r = self.collect_into(inner, RIter(nxt))
            return err[0] if err[0] is not None else Ok(r)
        if h == 'Option':
            inner = generic_args(ty)[0]
            miss = [False]

            def nxt():
                x = it.nxt()
                if x is DONE:
                    return DONE
                if x.discr == 0:
                    miss[0] = True
                    return DONE
                return x.f[0]
            r = self.collect_into(inner, RIter(nxt))
            return NONE() if miss[0] else Some(r)
        if h == 'String':
            s = ''
            for x in drain(it):
                x = deref(x)
                s += x if isinstance(x, str) else (chr(x) if isinstance(x, int) else x.s)
            return RString(s)
        if h == '_':
            raise Unsupported('collect into inferred type')
        # user type with a local FromIterator impl
        return self.from_iter_local(ty, it)

    def from_iter_local(self, ty, it):
        cands = []
        for b in self.it.mir.by_method.get('from_iter', []):
            if b.span and norm_ty(b.ret_ty) == ty:
                cands.append(b)
        if not cands:
            raise Unsupported('collect into ' + ty)
        if len(cands) == 1:
            return self.it.run_body(cands[0], [it])
        # several FromIterator impls: choose by the shape of the first item and the impl header in the source
        from .resolve import span_text, impl_header
        xs = drain(it)
        it2 = list_iter(xs)
        if not xs:
            return self.it.run_body(cands[0], [it2])
        shape = self.shape_of(xs[0])
        good = []
        for b in cands:
            hdr = impl_header(span_text(self.it, b) or '')
            ga = generic_args(norm_ty(hdr[0])) if hdr and hdr[0] else []
            if ga and self.shape_of_ty(ga[0]) == shape:
                good.append(b)
        if len(good) != 1:
            raise Inconclusive(f'cannot choose FromIterator impl for {ty} with item shape {shape}')
        return self.it.run_body(good[0], [it2])

    def shape_of(self, v):
        v = deref(v) if isinstance(v, Ref) else v
        if isinstance(v, Agg) and (v.ty is None):
            return '(' + ','.join(self.shape_of(x) for x in v.f) + ')'
        if isinstance(v, Agg):
            return ty_head(v.ty)
        if isinstance(v, Enum):
            return v.ty
        if isinstance(v, FV):
            return 'f64'
        if isinstance(v, int) or is_bv(v):
            return 'int'
        return type(v).__name__

    def shape_of_ty(self, t):
        t = norm_ty(t)
        if t.startswith('('):
            return '(' + ','.join(self.shape_of_ty(x) for x in split_top(t[1:-1])) + ')'
        h = ty_head(t)
        if h in INT_TYS:
            return 'int'
        return h

    def m_Iterator__collect(self, c, it):
        it = self._into_iter_value(it)
        k = c.rindex('::collect::<')
        ty = c[k + len('::collect::<'):-1]
        return self.collect_into(ty, it)

    def m_FromIterator__from_iter(self, c, src):
        pc = parse_callee(c)
        return self.collect_into(pc.self_ty, self._into_iter_value(src))


STD_EPS = FV('fin', Fraction(2.220446049250313e-16))


def parse_byte_literal(text):
    """bytes of a rustc-printed byte string literal  b"..." """
    body = text[2:-1]
    out = bytearray()
    i = 0
    while i < len(body):
        ch = body[i]
        if ch == '\\':
            nx = body[i + 1]
            if nx == 'x':
                out.append(int(body[i + 2:i + 4], 16))
                i += 4
                continue
            out.append({'n': 10, 't': 9, 'r': 13, '0': 0, '\\': 92, '"': 34, "'": 39}[nx])
            i += 2
            continue
        out += ch.encode('utf-8')
        i += 1
    return bytes(out)


def rust_f64_display(x):
    """Rust's `{}` for f64: shortest round-trip digits, positional notation, no trailing '.0'"""
    import decimal
    if x != x:
        return 'NaN'
    if x in (float('inf'), float('-inf')):
        return 'inf' if x > 0 else '-inf'
    if x == 0:
        return '-0' if str(x).startswith('-') else '0'
    d = decimal.Decimal(repr(x))
    t = format(d, 'f')
    if '.' in t:
        t = t.rstrip('0').rstrip('.')
    return t


_F64_RE = re.compile(r'[+-]?(?:(?:\d+\.?\d*|\.\d+)(?:[eE][+-]?\d+)?|inf|infinity|nan)$', re.I)


def rust_parse_f64(s):
    if not _F64_RE.match(s):
        return None
    t = s.lower()
    if t.lstrip('+-') in ('inf', 'infinity'):
        return NINF if t.startswith('-') else PINF
    if t.lstrip('+-') == 'nan':
        return NAN
    v = float(s)
    if v == float('inf'):
        return PINF
    if v == float('-inf'):
        return NINF
    return FV('fin', Fraction(v))


def approximate_float_i64(val, max_error=Fraction(10) ** -19, max_iterations=30):
    """port of num_rational::approximate_float_unsigned/approximate_float for i64 (continued fractions)"""
    negative = val < 0
    a = abs(val)
    r = _approx_unsigned(a, max_error, max_iterations, (1 << 63) - 1)
    if r is None:
        return None
    return -r if negative else r


def _approx_unsigned(val, max_error, max_iterations, t_max):
    # Continued fractions algorithm as in num-rational 0.4 `approximate_float_unsigned`, in binary64 arithmetic like the
    # original (python floats are IEEE doubles): q, f and 1/f are rounded at every step, which is what lets 1/3, 7/60, ...
    # terminate at the small fraction
    import math
    val = float(val)
    max_error = float(max_error)
    if val < 0 or val != val:
        return None
    q = val
    n0, d0, n1, d1 = 0, 1, 1, 0
    t_max_f = float(t_max)
    eps = 1.0 / t_max_f
    if q > t_max_f:
        return None
    for _ in range(max_iterations):
        if not (-9.223372036854775808e18 <= q < 9.223372036854775808e18):
            break
        a = int(q)           # NumCast f64 -> i64 truncates
        a_f = float(a)
        f = q - a_f
        # Prevent overflow
        if a != 0 and (n1 > t_max // a or d1 > t_max // a or a * n1 > t_max - n0 or a * d1 > t_max - d0):
            break
        n = a * n1 + n0
        d = a * d1 + d0
        n0, d0 = n1, d1
        n1, d1 = n, d
        g = math.gcd(n1, d1)
        if g != 0:
            n1 //= g
            d1 //= g
        # Close enough?
        if d == 0:
            n_over_d = math.inf if n > 0 else math.nan
        else:
            n_over_d = float(n) / float(d)
        if abs(n_over_d - val) < max_error:
            break
        # Prevent division by ~0
        if f < eps:
            break
        q = 1.0 / f
    if d1 == 0:
        return None
    return Fraction(n1, d1)
