#!/bin/bash
# offline setup: build the native replay binary and warm the MIR dependency cache
set -e
cd "$(dirname "$0")"
export CARGO_NET_OFFLINE=true
mkdir -p .cache evidence/replays
cp /repo/Cargo.lock replay/Cargo.lock 2>/dev/null || true
(cd replay && CARGO_TARGET_DIR=$PWD/../.cache/replay-target cargo build --offline --quiet)
python3-vt - <<'PY'
import sys
sys.path.insert(0, '.')
from mirsym.hx import dump_mir
print('mir:', dump_mir())
PY

# warm the Kani build cache (engine K, used by C16)
(cd kani && cp /repo/Cargo.lock Cargo.lock && cargo kani --target-dir $PWD/../.cache/kani-target --harness bound_new_accepts_exactly_valid --output-format terse > ../.cache/kani-setup.log 2>&1 || true)
echo kani warm: $(grep -c SUCCESSFUL .cache/kani-setup.log)
echo setup ok
