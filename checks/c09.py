"""C09 — penalty methods keep every constraint and build f + weighted squared violations (engine M)."""
import itertools
import z3
from fractions import Fraction
from .common import *
from .oracles import *
from .instances import *
from .c02 import read_monos, sym_canon, sym_mul, sym_add
from .c04 import dom

EPS = Fraction(2.220446049250313e-16)
MSGI, MSGP, MSGF = 'ommx.v1.Instance', 'ommx.v1.ParametricInstance', 'ommx.v1.Function'
VARS = [1, 4, 9]    # non-contiguous variable ids (default listing); see VAR_ORDERS
# listings of the decision variables: ascending, descending and one where (last listed id + 1) is itself a defined id
VAR_ORDERS = [[1, 4, 9], [9, 4, 1], [4, 9, 3]]


def fn_of_kind(chk, P, kind, pre, mode='signed', ids=None):
    M = chk.M
    pick = (lambda n: ids[n % len(ids)]) if ids is not None else (lambda n: VARS[P.choose(3)])
    if kind == 'unset':
        return None
    if kind == 'constant':
        c = dom(P, pre + 'c', mode)
        return (M.function('Constant', c), SymFn([([], c)]))
    if kind == 'linear1':
        a, k = dom(P, pre + 'a', mode), dom(P, pre + 'k', mode)
        i = pick(0)
        return (M.function('Linear', M.linear([(i, a)], k)), SymFn([([i], a), ([], k)]))
    if kind == 'linear2':
        a, b, k = dom(P, pre + 'a', mode), dom(P, pre + 'b', mode), dom(P, pre + 'k', mode)
        i, j = pick(0), pick(1)
        return (M.function('Linear', M.linear([(i, a), (j, b)], k)), SymFn([([i], a), ([j], b), ([], k)]))
    if kind == 'quadratic':
        q, k = dom(P, pre + 'q', mode), dom(P, pre + 'k', mode)
        i, j = pick(0), pick(1)
        return (M.function('Quadratic', M.quadratic([(i, j, q)], M.linear([], k))), SymFn([([i, j], q), ([], k)]))
    raise ValueError(kind)


def build(chk):
    eng = chk.eng
    pm = eng.method('penalty_method', first_param='v1::Instance')
    upm = eng.method('uniform_penalty_method', first_param='v1::Instance')
    B, rd = Build(chk), Rd(chk)
    KINDS = ['unset', 'constant', 'linear1', 'linear2', 'quadratic']
    chk.bounds = {'instance': 'variables {1,4,9} listed ascending or descending, or {3,4,9} listed as 4,9,3; 0-2 active (ids 20,25 listed in either order) and 0-1 previously removed constraints; constraint functions: ' + ', '.join(KINDS) +
                  '; objective absent / linear / quadratic; one dependency entry; sense symbolic', 'coefficients': 'objective: 0 or magnitude in [2^-4, 2^4]; constraint functions: positive in [2^-4, 2^4]',
                  'ids in functions': 'three id patterns per constraint (distinct / repeated / swapped)', 'sense and equalities': 'fully symbolic 32-bit integers'}
    chk.assumptions += ['R-model; objective compared coefficient-wise up to 64*2^16*EPSILON', 'the sum of squared violations ranges over the active constraints of the input '
                        '(previously removed constraints are kept but not penalised)', 'library models trusted and validated natively each run']

    def mk(method, kinds, nrem, objkind):
        body = pm if method == 'penalty' else upm

        def h(P):
            sense = P.bv('sense', bits=32)          # carried over untouched: fully symbolic
            VARS = VAR_ORDERS[P.choose(len(VAR_ORDERS))]
            idsets = [[VARS[0], VARS[1]], [VARS[1], VARS[1]], [VARS[2], VARS[0]]][P.choose(3)]
            obj = fn_of_kind(chk, P, objkind, 'o', 'signed', [VARS[1], VARS[2]])
            # constraint ids listed ascending or descending (the list order of a message is not sorted by id)
            cids = [20, 25] if (len(kinds) < 2 or P.choose(2) == 0) else [25, 20]
            cons = [Con(cids[i], P.bv(f'eq{i}', bits=32), fn_of_kind(chk, P, k, f'g{i}', 'positive', idsets if i == 0 else idsets[::-1]),
                        name=f'c{i}', subscripts=[i]) for i, k in enumerate(kinds)]
            rems = [Rem(Con(7, LE, fn_of_kind(chk, P, 'linear1', 'r', 'signed', [VARS[2]]), name='old'), reason='earlier', params=[('a', 'b')]) for _ in range(nrem)]
            dep = fn_of_kind(chk, P, 'linear1', 'd', 'positive', [VARS[0]])
            spec = Inst(sense=sense, objective=obj, vars=[Var(i, 3) for i in VARS], cons=cons, removed=rems, deps=[(30, dep)])
            inst = B.instance(spec)
            orig = rd.instance(B.instance(spec))

            def witness(model):
                idict = chk.conv.to_dict(B.instance(spec), MSGI, model)
                case = {'op': method + '_method', 'instance': chk.hexdict(idict, MSGI)}

                def judge(res):
                    if 'ok' not in res:
                        return True
                    p = chk.unhex(res['ok']['parametric'], MSGP)
                    return not concrete_ok(idict, p, method)
                return case, judge, f'{method}_method on {idict}'
            try:
                res = P.it.run_body(body, [inst])
            except RustPanic:
                P.fail('no-panic', witness)
                return
            if res.vname != 'Ok':
                P.fail('ok', witness)
                return
            out = rd.instance(res.f[0], 'v1::ParametricInstance')
            conj = [len(out['cons']) == 0]
            # every constraint of the input is kept as a removed constraint with unchanged id, function, equality
            got = {r_['constraint']['id']: r_ for r_ in out['removed'] if r_['constraint'] is not None}
            want = {c['id']: c for c in orig['cons']} | {r_['constraint']['id']: r_['constraint'] for r_ in orig['removed']}
            keeps = [len(out['removed']) == len(want), sorted(got) == sorted(want)]
            if all(keeps):
                for i, c in want.items():
                    g = got[i]['constraint']
                    fn_ok = (g['function'] is None) == (c['function'] is None) and (c['function'] is None or val_eq(g['function'], c['function']))
                    keeps += [scalar_eq(g['equality'], c['equality']), fn_ok]
            if not P.require('keeps-every-constraint', b_and(*keeps), witness,
                             role='previously-removed-constraints-dropped' if nrem else None):
                return
            # parameters
            params = [{'id': eng.field(p, 'v1::Parameter', 'id'), 'subscripts': list(deref(eng.field(p, 'v1::Parameter', 'subscripts')).items)} for p in out['parameters']]
            pids = [p['id'] for p in params]
            conj += [len(set(pids)) == len(pids), not (set(pids) & set(VARS))]
            if method == 'penalty':
                conj.append(sorted(tuple(p['subscripts']) for p in params) == sorted((c.id,) for c in cons))
                pid_of = {p['subscripts'][0]: p['id'] for p in params if len(p['subscripts']) == 1}
            else:
                conj.append(len(params) == 1)
            # variables, sense, dependencies carried over
            conj += [[v['id'] for v in out['vars']] == VARS, scalar_eq(out['sense'], sense), len(out['deps']) == 1 and out['deps'][0][0] == 30 and val_eq(out['deps'][0][1], dep[0])]
            if not all(c is not False for c in conj):
                P.fail('parameters-and-carry-over', witness)
                return
            # objective' = f + sum w_c g_c^2   (coefficient-wise, weights are the parameter ids)
            exp = sym_canon(obj[1]) if obj else {}
            if method == 'penalty':
                for c in cons:
                    g = sym_canon(c.fn[1]) if c.fn else {}
                    if c.id not in pid_of:
                        P.fail('parameter-per-constraint', witness)
                        return
                    exp = sym_add(exp, sym_mul({(pid_of[c.id],): Fraction(1)}, sym_mul(g, g)))
            else:
                tot = {}
                for c in cons:
                    g = sym_canon(c.fn[1]) if c.fn else {}
                    tot = sym_add(tot, sym_mul(g, g))
                exp = sym_add(exp, sym_mul({(pids[0],): Fraction(1)}, tot))
            gotm = {}
            if out['objective'] is None:
                P.fail('objective-set', witness)
                return
            for ids, cf in read_monos(chk, out['objective'])[0]:
                k = tuple(sorted(ids))
                gotm[k] = r_add(gotm.get(k, Fraction(0)), cf.r)
            tol = 64 * EPS * 2 ** 16
            for k in set(gotm) | set(exp):
                conj.append(within(gotm.get(k, Fraction(0)), exp.get(k, Fraction(0)), tol))
            P.require('objective-and-parameters', b_and(*conj), witness)
        return h

    combos = [()] + [(k,) for k in KINDS] + list(itertools.product(['unset', 'constant', 'linear1', 'quadratic'], ['linear1', 'linear2']))
    if chk.tier == 'thorough':
        combos = [()] + [(k,) for k in KINDS] + list(itertools.product(KINDS, KINDS))
    for method in ('penalty', 'uniform_penalty'):
        for kinds in combos:
            for nrem in (0, 1):
                objkind = ['unset', 'linear2', 'quadratic'][(len(kinds) + nrem) % 3] if chk.tier == 'quick' else None
                for ok in ([objkind] if objkind else ['unset', 'linear2', 'quadratic']):
                    chk.harness(f'{method}:{"+".join(kinds) or "none"}/removed={nrem}/obj={ok}', mk(method, kinds, nrem, ok))
    chk.validation('penalty', lambda c: validate(c, pm, upm))


def concrete_ok(idict, p, method):
    """independent check of a concrete ParametricInstance against the input instance"""
    if p['constraints']:
        return False
    want = {c['id']: c for c in idict['constraints']} | {r['constraint']['id']: r['constraint'] for r in idict['removed_constraints']}
    got = {r['constraint']['id']: r['constraint'] for r in p['removed_constraints'] if r['constraint']}
    if sorted(got) != sorted(want) or len(p['removed_constraints']) != len(want):
        return False
    for i, c in want.items():
        if got[i]['equality'] != c['equality'] or got[i]['function'] != c['function']:
            return False
    pids = [q['id'] for q in p['parameters']]
    vids = [v['id'] for v in idict['decision_variables']]
    if len(set(pids)) != len(pids) or set(pids) & set(vids):
        return False
    if [v['id'] for v in p['decision_variables']] != vids or p['sense'] != idict['sense']:
        return False
    exp = canon_poly(fn_monomials(idict['objective']))
    if method == 'penalty':
        tag = {tuple(q['subscripts']): q['id'] for q in p['parameters']}
        for c in idict['constraints']:
            if (c['id'],) not in tag:
                return False
            g = canon_poly(fn_monomials(c['function']))
            exp = poly_add(exp, poly_mul({(tag[(c['id'],)],): Fraction(1)}, poly_mul(g, g)))
    else:
        if len(pids) != 1:
            return False
        tot = {}
        for c in idict['constraints']:
            g = canon_poly(fn_monomials(c['function']))
            tot = poly_add(tot, poly_mul(g, g))
        exp = poly_add(exp, poly_mul({(pids[0],): Fraction(1)}, tot))
    got_o = canon_poly(fn_monomials(p['objective']))
    return all(abs(got_o.get(k, 0) - exp.get(k, 0)) <= 1e-9 * (1 + abs(exp.get(k, 0))) for k in set(got_o) | set(exp))


def validate(chk, pm, upm):
    from . import c05
    rng = chk.rng
    n = 40 if chk.tier == 'quick' else 300
    for t in range(n):
        inst, _ = c05.rand_instance(rng)
        method = rng.choice(['penalty', 'uniform_penalty'])
        case = {'op': method + '_method', 'instance': chk.hexdict(inst, MSGI)}
        iv = chk.conv.from_dict(inst, MSGI)

        def py(it, iv=iv, method=method):
            r = it.run_body(pm if method == 'penalty' else upm, [iv])
            if r.vname != 'Ok':
                return 'err'
            return norm_p(chk.conv.to_dict(r.f[0], MSGP))

        def nat(res):
            if 'ok' not in res:
                return 'err'
            return norm_p(chk.unhex(res['ok']['parametric'], MSGP))
        chk.validate(method, py, case, nat)


def norm_p(p):
    return ({k: float(v) for k, v in canon_poly(fn_monomials(p['objective'])).items()},
            [(q['id'], q['name'], q['subscripts']) for q in p['parameters']],
            sorted((r['constraint']['id'], r['removed_reason'], sorted(r['removed_reason_parameters'])) for r in p['removed_constraints']),
            len(p['constraints']), p['sense'], [v['id'] for v in p['decision_variables']])


if __name__ == '__main__':
    main('C09', build)
