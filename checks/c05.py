"""C05 — a Solution faithfully reports the evaluated problem (engine M; scalar kernels also under Kani in c16/kani)."""
import z3
from fractions import Fraction
from .common import *
from .oracles import *
from .shapes import *
from .instances import *
from mirsym.interp import f_cmp, f_sub, f_add, f_abs

ATOL_BOUND = FV('fin', Fraction(1e-7))
ATOL_FEAS = FV('fin', Fraction(1e-6))
MSGI, MSGS = 'ommx.v1.Instance', 'ommx.v1.State'


def bound_of(v):
    if v.bound is not None:
        return v.bound
    if v.kind == KIND['binary']:
        return (ZERO, ONE)
    return (NINF, PINF)


def contains(b, x, atol):
    return b_and(f_cmp('le', f_sub(b[0], atol), x), f_cmp('le', x, f_add(b[1], atol)))


def nearest_to_zero(b):
    lo, hi = b
    if lo.tag == 'fin' and not isinstance(lo.r, Fraction) or hi.tag == 'fin' and not isinstance(hi.r, Fraction):
        # symbolic: express as ite
        lo_ge0 = f_cmp('ge', lo, ZERO)
        hi_le0 = f_cmp('le', hi, ZERO)
        lor = z3real(lo.r) if lo.tag == 'fin' else None
        hir = z3real(hi.r) if hi.tag == 'fin' else None
        e = z3.RealVal(0)
        if hir is not None:
            e = z3.If(z3bool(hi_le0), hir, e)
        if lor is not None:
            e = z3.If(z3bool(lo_ge0), lor, e)
        return FV('fin', e)
    if f_cmp('ge', lo, ZERO):
        return lo
    if f_cmp('le', hi, ZERO):
        return hi
    return ZERO


def fn_den(fn, lookup):
    return FV('fin', Fraction(0)) if fn is None else FV('fin', fn[1].denote(lookup))


def fn_ids_of(fn):
    return [] if fn is None else fn[1].ids()


def holds(eq, val):
    if eq == EQ:
        return f_cmp('lt', f_abs(val), ATOL_FEAS)
    return f_cmp('lt', val, ATOL_FEAS)


def expected(spec, st):
    """oracle for Instance::evaluate from the spec (ids concrete). returns dict of symbolic expectations"""
    stmap = dict(st)
    used = []
    for fn in [spec.objective] + [c.fn for c in spec.cons] + [r.con.fn for r in spec.removed]:
        for i in fn_ids_of(fn):
            if i not in used:
                used.append(i)
    inb = [contains(bound_of(v), stmap[v.id], ATOL_BOUND) for v in spec.vars if v.id in stmap]
    missing = [u for u in used if u not in stmap]
    ok = b_and(*inb) if not missing else False
    lookup = lambda i: stmap[i].r
    out = {'ok': ok, 'used': sorted(used)}
    if missing:
        return out
    out['objective'] = fn_den(spec.objective, lookup)
    cons = []
    for c in spec.cons:
        cons.append((c, fn_den(c.fn, lookup), None))
    for r in spec.removed:
        cons.append((r.con, fn_den(r.con.fn, lookup), r))
    out['cons'] = cons
    out['feasible_relaxed'] = b_and(*[holds(c.eq, v) for c, v, r in cons if r is None])
    out['feasible'] = b_and(*[holds(c.eq, v) for c, v, r in cons])
    # reported state
    rep = dict(stmap)
    for v in spec.vars:
        if v.sub is not None:
            rep[v.id] = v.sub
    deps_ok = True
    pending = list(spec.deps)
    progress = True
    while pending and progress:
        progress = False
        for d in list(pending):
            i, fn = d
            if all(j in rep for j in fn_ids_of(fn)):
                rep[i] = fn_den(fn, lambda j: rep[j].r)
                pending.remove(d)
                progress = True
    if pending:
        out['ok'] = False
        return out
    for v in spec.vars:
        if v.id not in rep:
            rep[v.id] = nearest_to_zero(bound_of(v))
    out['state'] = rep
    return out


def check_solution(P, chk, spec, st, res, witness, rd):
    exp = expected(spec, st)
    if res.vname == 'Err':
        P.require('rejected-only-when-required', b_not(exp['ok']), witness)
        P.cover('rejected')
        return
    P.cover('accepted')
    if exp['ok'] is False:
        P.fail('must-reject', witness)
        return
    sol = rd.solution(res.f[0].f[0])
    used = [e[0] for e in deref(res.f[0].f[1]).entries]
    conj = [exp['ok'], sorted(used) == exp['used'], feq(sol['objective'], exp['objective'])]
    ecs = sol['evaluated_constraints']
    if len(ecs) != len(exp['cons']):
        P.fail('one-evaluated-constraint-per-constraint', witness)
        return
    for ec, (c, val, r) in zip(ecs, exp['cons']):
        conj += [ec['id'] == c.id, scalar_eq(ec['equality'], c.eq), feq(ec['value'], val), sorted(ec['used']) == sorted(set(fn_ids_of(c.fn))),
                 ec['name'] == c.name, ec['description'] == c.desc, ec['subscripts'] == c.subscripts, ec['parameters'] == sorted(c.params),
                 ec['removed_reason'] == (None if r is None else r.reason),
                 ec['removed_reason_parameters'] == ([] if r is None else sorted(r.params))]
    fr = sol['feasible_relaxed']
    if fr is None:
        P.fail('feasible_relaxed-set', witness)
        return
    conj += [z3bool(fr) == z3bool(exp['feasible_relaxed']), z3bool(sol['feasible']) == z3bool(exp['feasible'])]
    rep = dict(sol['state'] or [])
    if sorted(rep) != sorted(exp['state']):
        P.fail('reported-state-keys', witness)
        return
    for k, v in exp['state'].items():
        conj.append(feq(rep[k], v))
    # decision variables are carried over
    conj.append([rd.var(v)['id'] for v in sol['decision_variables']] == [v.id for v in spec.vars])
    P.require('solution-fields', b_and(*conj), witness)


def mk_witness(chk, inst, stv, spec):
    def witness(model):
        idict = chk.conv.to_dict(inst, MSGI, model)
        sdict = chk.conv.to_dict(stv, MSGS, model)
        # with two or more dependent variables the outcome may depend on HashMap iteration order: ask for every outcome met
        multi = len(idict.get('decision_variable_dependency') or []) >= 2
        case = {'op': 'evaluate_instance_variants' if multi else 'evaluate_instance', 'instance': chk.hexdict(idict, MSGI), 'state': chk.hexdict(sdict, MSGS)}
        exp = concrete_expected(idict, sdict)

        def judge1(res):
            if res.get('timeout') or res.get('crashed'):
                return True
            if exp is None:
                return 'err' not in res
            if 'ok' not in res:
                return True
            sol = chk.unhex(res['ok']['solution'], 'ommx.v1.Solution')
            if sorted(res['ok'].get('used', exp['used'])) != exp['used']:
                return True          # the set of variable ids evaluate reports as used
            return not solution_matches(sol, exp)

        def judge(res):
            if res.get('timeout') or res.get('crashed'):
                return True
            return any(judge1(v) for v in res.get('variants', [res]))
        return case, judge, f'evaluate(instance={idict}, state={sdict}); expected {"Err" if exp is None else exp}'
    return witness


# ----------------------------------------------------------------------------- concrete oracle on dict messages (for the replay judge)

def cbound(v):
    if v['bound'] is not None:
        return v['bound']['lower'], v['bound']['upper']
    if v['kind'] == 1:
        return 0.0, 1.0
    return -math.inf, math.inf


def concrete_expected(inst, state):
    st = dict(state['entries'])
    fns = [inst['objective']] + [c['function'] for c in inst['constraints']] + [r['constraint']['function'] for r in inst['removed_constraints']]
    used = set()
    for f in fns:
        used |= fn_ids(f)
    for v in inst['decision_variables']:
        if v['id'] in st:
            lo, hi = cbound(v)
            if not (lo - 1e-7 <= st[v['id']] <= hi + 1e-7):
                return None
    if any(u not in st for u in used):
        return None
    asg = {k: F(x) for k, x in st.items()}
    cons = [(c, None) for c in inst['constraints']] + [(r['constraint'], r) for r in inst['removed_constraints']]
    vals = [fn_eval(c['function'], asg) for c, r in cons]

    def hold(c, v):
        return abs(v) < 1e-6 if c['equality'] == 1 else v < 1e-6
    rep = dict(st)
    for v in inst['decision_variables']:
        if v['substituted_value'] is not None:
            rep[v['id']] = v['substituted_value']
    pending = list(inst['decision_variable_dependency'])
    prog = True
    while pending and prog:
        prog = False
        for d in list(pending):
            val = fn_eval(d[1], {k: F(x) for k, x in rep.items()})
            if val is not None:
                rep[d[0]] = float(val)
                pending.remove(d)
                prog = True
    if pending:
        return None
    for v in inst['decision_variables']:
        if v['id'] not in rep:
            lo, hi = cbound(v)
            rep[v['id']] = lo if lo >= 0 else hi if hi <= 0 else 0.0
    return {'objective': float(fn_eval(inst['objective'], asg)), 'values': [float(v) for v in vals], 'ids': [c['id'] for c, r in cons],
            'reasons': [None if r is None else r['removed_reason'] for c, r in cons],
            'feasible_relaxed': all(hold(c, v) for (c, r), v in zip(cons, vals) if r is None),
            'feasible': all(hold(c, v) for (c, r), v in zip(cons, vals)), 'state': rep,
            'used': sorted(used), 'cused': [sorted(fn_ids(c['function'])) for c, r in cons]}


def solution_matches(sol, exp):
    if not close(sol['objective'], exp['objective']):
        return False
    ecs = sol['evaluated_constraints']
    if [e['id'] for e in ecs] != exp['ids'] or [e['removed_reason'] for e in ecs] != exp['reasons']:
        return False
    if not all(close(e['evaluated_value'], v) for e, v in zip(ecs, exp['values'])):
        return False
    if sol['feasible_relaxed'] != exp['feasible_relaxed'] or sol['feasible'] != exp['feasible']:
        return False
    if 'cused' in exp and [sorted(e['used_decision_variable_ids']) for e in ecs] != exp['cused']:
        return False
    st = dict(sol['state']['entries']) if sol['state'] else {}
    if sorted(st) != sorted(exp['state']):
        return False
    return all(close(st[k], exp['state'][k]) for k in st)


# ----------------------------------------------------------------------------- harnesses

def build(chk):
    eng = chk.eng
    ev = eng.method('evaluate', first_param='&v1::Instance')
    B = Build(chk)
    rd = Rd(chk)
    chk.bounds = {'variables': '<= 3 (ids 1,2,5,7 concrete, non-contiguous)', 'constraints': '<= 2 active + <= 2 removed',
                  'values': 'state values, coefficients, constants, bound endpoints: symbolic reals; infinite endpoints and kinds by explored choice'}
    chk.assumptions += [
        'R-model for f64; the tolerance rules (|f|<1e-6, f<1e-6, bound +-1e-7) are compared as exact rationals of the binary64 literals',
        'valid instances only: equalities in {=0, <=0}, bounds with lower<=upper, functions with equal-length arrays; a state gives no value for a variable that also carries a substituted_value',
        'metadata strings are concrete tokens',
        'library models trusted and validated natively each run',
    ]

    def lin1(P, pre, ids):
        """a*x_i (+ b*x_j) + k with symbolic coefficients"""
        terms = [(i, P.real(f'{pre}_a{n}')) for n, i in enumerate(ids)]
        k = P.real(f'{pre}_k')
        return chk.M.function('Linear', chk.M.linear(terms, k)), SymFn([([i], c) for i, c in terms] + [([], k)])

    def const(P, pre):
        v = P.real(pre)
        return chk.M.function('Constant', v), SymFn([([], v)])

    def run(P, spec, st):
        inst = B.instance(spec)
        stv = B.state(st)
        w = mk_witness(chk, inst, stv, spec)
        try:
            res = P.it.run_body(ev, [ref_to(inst), ref_to(stv)])
        except RustPanic as e:
            P.fail('no-panic', w)
            return
        check_solution(P, chk, spec, st, res, w, rd)

    # H1: feasibility flags and the evaluated-constraint list
    def mk_feas(na, nr):
        def h(P):
            x1 = P.real('x1')
            cons, rems = [], []
            desc_ids = (na + nr >= 2) and P.choose(2) == 1     # constraint ids ascending or descending along the lists (messages are not sorted by id)
            for i in range(na + nr):
                eq = EQ if P.choose(2) == 0 else LE
                fn = const(P, f'v{i}') if i % 2 == 0 else lin1(P, f'g{i}', [1])
                c = Con(10 + 3 * (na + nr - 1 - i if desc_ids else i), eq, fn, name=f'c{i}' if i % 2 else None, subscripts=[i, 7] if i == 1 else [],
                        params=[('k', f'p{i}')] if i == 0 else [], desc='d' if i == 2 else None)
                if i < na:
                    cons.append(c)
                else:
                    # the first removed constraint may carry an empty reason string (legal; it is still a removed constraint)
                    rems.append(Rem(c, reason='' if (i == na and P.choose(2) == 1) else f'reason{i}', params=[('r', str(i))] if i == na else []))
            spec = Inst(sense=MAXIMIZE if P.choose(2) else MINIMIZE, objective=lin1(P, 'o', [1]), vars=[Var(1, KIND['continuous'])],
                        cons=cons, removed=rems)
            run(P, spec, [(1, x1)])
        return h
    for na in range(3):
        for nr in range(3):
            chk.harness(f'feasibility:{na}active+{nr}removed', mk_feas(na, nr), regions=['accepted'])

    # H2a: bounds of a used variable, every kind x bound shape, value symbolic
    BSH = ['none', 'finite', 'lower-only', 'upper-only', 'free', 'degenerate']

    def mk_bound(P, shape, pre):
        if shape == 'none':
            return None
        lo, hi = P.real(pre + 'lo'), P.real(pre + 'hi')
        if shape == 'finite':
            P.ctx.assume(lo.r <= hi.r)
            return (lo, hi)
        if shape == 'degenerate':
            return (lo, lo)
        if shape == 'lower-only':
            return (lo, PINF)
        if shape == 'upper-only':
            return (NINF, hi)
        return (NINF, PINF)

    def h_used_bound(P):
        kind = [1, 2, 3, 4, 5, 0][P.choose(6)]
        b = mk_bound(P, BSH[P.choose(len(BSH))], 'b')
        x1 = P.real('x1')
        spec = Inst(objective=lin1(P, 'o', [1]), vars=[Var(1, kind, b)], cons=[Con(3, LE, lin1(P, 'g', [1]))])
        run(P, spec, [(1, x1)])
    chk.harness('bounds:used-variable', h_used_bound, regions=['accepted', 'rejected'])

    # H2b: an irrelevant variable: kind x bound x presence x substituted value
    def h_irrelevant(P):
        kind = [1, 2, 3, 5][P.choose(4)]
        b = mk_bound(P, BSH[P.choose(len(BSH))], 'b')
        present = P.choose(2)
        sub = P.real('sub') if (not present and P.choose(2)) else None
        x1 = P.real('x1')
        st = [(1, x1)] + ([(5, P.real('x5'))] if present else [])
        spec = Inst(objective=lin1(P, 'o', [1]), vars=[Var(1, 3), Var(5, kind, b, sub=sub)], cons=[Con(3, EQ, const(P, 'v'))])
        run(P, spec, st)
    chk.harness('state:irrelevant-variable', h_irrelevant, regions=['accepted', 'rejected'])

    # H3: a used variable missing from the state, at each position it can be used
    def h_missing(P):
        pos = P.choose(4)   # where variable 2 is used: objective / active / removed / nowhere
        p1, p2 = P.choose(2), P.choose(2)
        ids_o = [1, 2] if pos == 0 else [1]
        spec = Inst(objective=lin1(P, 'o', ids_o), vars=[Var(1, 3), Var(2, 2)],
                    cons=[Con(3, LE, lin1(P, 'g', [1, 2] if pos == 1 else [1]))],
                    removed=[Rem(Con(4, EQ, lin1(P, 'r', [2] if pos == 2 else [])))])
        st = ([(1, P.real('x1'))] if p1 else []) + ([(2, P.real('x2'))] if p2 else [])
        run(P, spec, st)
    chk.harness('state:missing-used-variable', h_missing, regions=['accepted', 'rejected'])

    # H4: dependent variables and substituted values in the reported state
    def h_dep(P):
        subbed = P.choose(2)
        chain = P.choose(2)
        deps = [(7, lin1(P, 'd7', [1] + ([5] if subbed else [])))]
        if chain:
            deps.append((8, lin1(P, 'd8', [7])))
        vars_ = [Var(1, 3), Var(5, 3, sub=P.real('s5') if subbed else None), Var(7, 3)] + ([Var(8, 3)] if chain else [])
        spec = Inst(objective=lin1(P, 'o', [1]), vars=vars_, deps=deps)
        run(P, spec, [(1, P.real('x1'))])
    chk.harness('state:dependent-and-fixed', h_dep, regions=['accepted'], hash_order='all')

    # H5: objective arms (absent / quadratic) and state entries for undefined ids
    def h_obj(P):
        arm = P.choose(3)
        x1, x2 = P.real('x1'), P.real('x2')
        if arm == 0:
            obj = None
        elif arm == 1:
            q = P.real('q')
            lk = P.real('lk')
            obj = (chk.M.function('Quadratic', chk.M.quadratic([(1, 2, q)], chk.M.linear([], lk))), SymFn([([1, 2], q), ([], lk)]))
        else:
            c = P.real('pc')
            obj = (chk.M.function('Polynomial', chk.M.polynomial([([2, 1, 1], c)])), SymFn([([2, 1, 1], c)]))
        spec = Inst(objective=obj, vars=[Var(1, 3), Var(2, 1)])
        run(P, spec, [(1, x1), (2, x2), (99, P.real('x99'))])
    chk.harness('objective:arms+undefined-state-ids', h_obj, regions=['accepted', 'rejected'])

    chk.validation('Instance::evaluate', lambda c: validate(c, ev))


def rand_instance(rng, nv=3):
    """random valid instance dict on the dyadic grid (for translator validation)"""
    def c():
        return rng.randint(-16, 16) / 8
    ids = [1, 2, 5][:nv]

    def fn(allowed):
        k = rng.choice(['none', 'const', 'lin', 'quad'])
        if k == 'none':
            return None
        if k == 'const':
            return {'function': ('constant', rng.choice([c(), 1e-6, -1e-6, 9.5e-7, 1.5e-6]))}
        lin = {'terms': [{'id': rng.choice(allowed), 'coefficient': c()} for _ in range(rng.randint(0, 2))], 'constant': c()}
        if k == 'lin':
            return {'function': ('linear', lin)}
        return {'function': ('quadratic', {'rows': [rng.choice(allowed)], 'columns': [rng.choice(allowed)], 'values': [c()], 'linear': lin if rng.random() < .5 else None})}
    used = ids[:2]
    vars_ = []
    for i in ids:
        b = rng.choice([None, (-1.0, 1.0), (0.0, math.inf), (-math.inf, 0.5), (0.25, 0.25)])
        vars_.append({'id': i, 'kind': rng.choice([1, 2, 3]), 'bound': None if b is None else {'lower': b[0], 'upper': b[1]},
                      'name': None, 'subscripts': [], 'parameters': [], 'description': None,
                      'substituted_value': c() if (i == 5 and rng.random() < .3) else None})

    def con(i):
        return {'id': i, 'equality': rng.choice([1, 2]), 'function': fn(used), 'subscripts': [i] if i % 2 else [], 'parameters': [('a', 'b')] if i % 3 == 0 else [],
                'name': f'c{i}' if i % 2 else None, 'description': None}
    inst = {'description': None, 'decision_variables': vars_, 'objective': fn(used), 'constraints': [con(10 + i) for i in range(rng.randint(0, 2))],
            'sense': rng.choice([1, 2]), 'parameters': None, 'constraint_hints': None,
            'removed_constraints': [{'constraint': con(20 + i), 'removed_reason': 'r', 'removed_reason_parameters': [('k', 'v')]} for i in range(rng.randint(0, 2))],
            'decision_variable_dependency': [(7, {'function': ('linear', {'terms': [{'id': 1, 'coefficient': c()}], 'constant': c()})})] if rng.random() < .3 else []}
    state = {'entries': [(i, rng.choice([c(), 0.0, 1.0, 1.00000005, 1.0000002])) for i in ids if rng.random() < .85]}
    return inst, state


def rnd(x):
    return float('%.11g' % x) + 0.0


def norm_solution(sol):
    st = sorted((k, rnd(v)) for k, v in (sol['state']['entries'] if sol['state'] else []))
    return (rnd(sol['objective']), st, sol['feasible'], sol['feasible_relaxed'],
            [(e['id'], e['equality'], rnd(e['evaluated_value']), sorted(e['used_decision_variable_ids']), e['name'], e['subscripts'],
              sorted(e['parameters']), e['description'], e['removed_reason'], sorted(e['removed_reason_parameters'])) for e in sol['evaluated_constraints']],
            [v['id'] for v in sol['decision_variables']], sol['optimality'], sol['relaxation'], sol['feasible_unrelaxed'])


def validate(chk, ev):
    rng = chk.rng
    n = 60 if chk.tier == 'quick' else 600
    for t in range(n):
        inst, state = rand_instance(rng)
        case = {'op': 'evaluate_instance', 'instance': chk.hexdict(inst, MSGI), 'state': chk.hexdict(state, MSGS)}
        iv, sv = chk.conv.from_dict(inst, MSGI), chk.conv.from_dict(state, MSGS)

        def py(it):
            r = it.run_body(ev, [ref_to(iv), ref_to(sv)])
            if r.vname == 'Err':
                return 'err'
            sol = chk.conv.to_dict(r.f[0].f[0], 'ommx.v1.Solution')
            return (norm_solution(sol), sorted(e[0] for e in deref(r.f[0].f[1]).entries))

        def nat(res):
            if 'err' in res:
                return 'err'
            if 'ok' not in res:
                return res
            return (norm_solution(chk.unhex(res['ok']['solution'], 'ommx.v1.Solution')), sorted(res['ok']['used']))
        chk.validate('Instance::evaluate', py, case, nat)
        if t < 2:
            chk.samples.append({'validation_case': {'instance': str(inst)[:400], 'state': str(state)}})


if __name__ == '__main__':
    main('C05', build)
