"""C19 — QPLIB files are read as the problem they describe (engine M; text/token model as in C17)."""
import itertools, math
import z3
from fractions import Fraction
from .common import *
from .oracles import *
from .instances import *
from .c02 import read_monos
from .c17 import Tok
from mirsym.interp import f_cmp

MSGI = 'ommx.v1.Instance'
INF = '1e+30'


def render(m):
    """independent writer for the QPLIB text format (.qplib)"""
    O, V, C = m['type']
    L = (['! leading comment line', '# another one'] if m.get('comment') else []) + [m['name'] + ' trailing words are ignored', m['type'], m['sense'] + '  # sense', f"{m['n']} # variables"]
    hasc = C not in 'NB'
    if hasc:
        L.append(f"{m['m']} # constraints")
    if O != 'L':
        L.append(f"{len(m['q0'])} # nonzeros in lower triangle of Q^0")
        L += [f'{i} {j} {v} entry of Q^0' for i, j, v in m['q0']]
    L.append(f"{m['b0_default']} # default value for entries in b_0")
    L.append(f"{len(m['b0'])} # non default entries in b_0")
    L += [f'{i} {v} entry of b_0' for i, v in m['b0']]
    L.append(f"{m['q0_const']} # value of q^0")
    if hasc and C != 'L':
        ents = [(k, i, j, v) for k, qs in enumerate(m['qs'], 1) for i, j, v in qs]
        L.append(f'{len(ents)} # nonzeros in lower triangle of Q^i')
        L += [f'{k} {i} {j} {v} entry of Q^{k}, trailing text' for k, i, j, v in ents]
    if hasc:
        ents = [(k, j, v) for k, bs in enumerate(m['bs'], 1) for j, v in bs]
        L.append(f'{len(ents)} # nonzeros in b^i')
        L += [f'{k} {j} {v} # entry of b^{k}' for k, j, v in ents]
    if m.get('comment'):
        L.append('! a comment line')
        L.append('')
    L.append(f"{m['infinity']} # value for infinity")
    if hasc:
        for key in ('cl', 'cu'):
            L.append(f"{m[key + '_default']} # default")
            L.append(f"{len(m[key])} # non default")
            L += [f'{i} {v} non-default side' for i, v in m[key]]
    if V != 'B':
        for key in ('lb', 'ub'):
            L.append(f"{m[key + '_default']} # default bound")
            L.append(f"{len(m[key])} # non default")
            L += [f'{i} {v} # non-default bound' for i, v in m[key]]
    if V in 'MG':
        L.append(f"{m['vt_default']} # default variable type")
        L.append(f"{len(m['vt'])}")
        L += [f'{i} {v} variable type' for i, v in m['vt']]
    L += ['0.0 # default x0', '0']
    if hasc:
        L += ['0.0 # default y0', '0']
    L += ['0.0 # default z0', '0']
    L.append(f"{len(m['var_names'])} # variable names")
    L += [f'{i} {nm}' for i, nm in m['var_names']]
    L.append(f"{len(m['con_names'])} # constraint names")
    L += [f'{i} {nm}' for i, nm in m['con_names']]
    return L


def build(chk):
    eng = chk.eng
    from_lines = eng.find_body(lambda b: b.name.startswith('qplib::parser::') and b.name.endswith('::from_lines'))
    convert = eng.find_body(lambda b: b.name == 'qplib::convert::convert')
    rd = Rd(chk)
    codes_quick = ['QCQ', 'LCL', 'QBN', 'DIB', 'CML', 'QGD', 'LGC', 'QIQ', 'LBN']
    codes = codes_quick if chk.tier == 'quick' else [o + v + c for o in 'LDCQ' for v in 'CBMIG' for c in 'NBLDCQ']
    chk.bounds = {'models': '2 variables, 0-2 constraints for every listed code; thorough tier also 4 variables x 3 constraints for six codes (the property quantifies 5 x 4); problem-type codes: ' + (', '.join(codes) if chk.tier == 'quick' else 'all 120'),
                  'numbers': 'Q^0 / Q^i lower-triangle entries, default and non-default b^0, q^0, b^i, c_l, c_u, bounds: symbolic reals; infinity value 1e30 (concrete); bounds / sides at or beyond it by explored choice',
                  'malformed': 'bad type letter, bad sense, bad variable type, non-number, premature end of file, count larger than the remaining lines, index 0 / index beyond the size'}
    chk.assumptions += ['lexing modelled as in C17 (lines, split_whitespace, splitn with the real closure, trim, starts_with, FromStr)', 'R-model', 'HashMap iteration order canonical',
                        'library models trusted and validated natively each run']

    def run_import(P, lines):
        from mirsym.models import list_iter
        r = P.it.run_body(from_lines, [list_iter([RString(x) for x in lines])])
        if r.vname != 'Ok':
            return r
        return P.it.run_body(convert, [r.f[0]])

    def mk_model(P, code, wide=False):
        if wide:
            return mk_model_wide(P, code)
        T = Tok(P)
        vals = {}

        def num(name, bounded=True):
            k, v = T.num(name)
            if bounded:
                P.ctx.assume(z3.And(v.r > -1e20, v.r < 1e20))    # "finite" values stay below the infinity value
            vals[k] = v
            return k
        O, V, C = code
        hasc = C not in 'NB'
        m = {'name': 'prob', 'type': code, 'sense': ['minimize', 'Maximize'][P.choose(2)], 'n': 2, 'm': 2 if hasc else 0, 'infinity': INF, 'comment': True}
        m['q0'] = [] if O == 'L' else [(1, 1, num('q11')), (2, 1, num('q21'))] if O != 'D' else [(2, 2, num('q22'))]
        m['b0_default'] = ['0.0', num('b0d')][P.choose(2)]
        m['b0'] = [[], [(2, num('b02'))]][P.choose(2)]
        m['q0_const'] = num('q0')
        m['qs'] = [[(2, 2, num('c1q22'))], [(2, 1, num('c2q21'))]] if hasc and C != 'L' else [[], []]
        m['bs'] = [[(1, num('c1b1'))], [(1, num('c2b1')), (2, num('c2b2'))]] if hasc else [[], []]
        side = P.choose(3) if hasc else 0      # which sides of constraint 1 are infinite
        m['cl_default'], m['cu_default'] = num('cld'), num('cud')
        m['cl'] = [(1, '-' + INF)] if side == 1 else []
        m['cu'] = [(1, INF)] if side == 2 else [(1, num('cu1'))]
        m['lb_default'], m['ub_default'] = num('lbd'), [num('ubd'), INF][P.choose(2)]
        m['lb'] = [(2, '-' + INF)]
        m['ub'] = [(1, num('ub1'))]
        m['vt_default'] = ['0', '2'][P.choose(2)] if V in 'MG' else '0'
        m['vt'] = [(2, '1')] if V in 'MG' else []
        m['var_names'] = [(2, 'second')]
        m['con_names'] = [(1, 'first_con')] if hasc else []
        return m, vals

    def mk_model_wide(P, code):
        """4 variables x 3 constraints (thorough tier): more entries per section, several non-default entries per list"""
        T = Tok(P)
        vals = {}

        def num(name, bounded=True):
            k, v = T.num(name)
            if bounded:
                P.ctx.assume(z3.And(v.r > -1e20, v.r < 1e20))
            vals[k] = v
            return k
        O, V, C = code
        hasc = C not in 'NB'
        m = {'name': 'wide', 'type': code, 'sense': ['minimize', 'Maximize'][P.choose(2)], 'n': 4, 'm': 3 if hasc else 0, 'infinity': INF, 'comment': True}
        m['q0'] = [] if O == 'L' else [(1, 1, num('q11')), (2, 1, num('q21')), (3, 2, num('q32')), (4, 1, num('q41')), (4, 4, num('q44'))] if O != 'D' else [(2, 2, num('q22')), (4, 4, num('q44'))]
        m['b0_default'] = ['0.0', num('b0d')][P.choose(2)]
        m['b0'] = [(2, num('b02')), (4, num('b04'))]
        m['q0_const'] = num('q0')
        m['qs'] = [[(2, 2, num('c1q22')), (3, 1, num('c1q31'))], [(4, 3, num('c2q43'))], []] if hasc and C != 'L' else [[], [], []]
        m['bs'] = [[(1, num('c1b1'))], [(1, num('c2b1')), (4, num('c2b4'))], [(3, num('c3b3'))]] if hasc else [[], [], []]
        side = P.choose(3) if hasc else 0
        m['cl_default'], m['cu_default'] = num('cld'), num('cud')
        m['cl'] = ([(1, '-' + INF)] if side == 1 else []) + [(3, num('cl3'))]
        m['cu'] = [(1, INF)] if side == 2 else [(1, num('cu1'))]
        m['lb_default'], m['ub_default'] = num('lbd'), [num('ubd'), INF][P.choose(2)]
        m['lb'] = [(2, '-' + INF), (4, num('lb4'))]
        m['ub'] = [(1, num('ub1')), (3, INF)]
        m['vt_default'] = ['0', '2'][P.choose(2)] if V in 'MG' else '0'
        m['vt'] = [(2, '1'), (3, '2')] if V in 'MG' else []
        m['var_names'] = [(2, 'second'), (4, 'fourth')]
        m['con_names'] = [(1, 'first_con'), (3, 'third_con')] if hasc else []
        return m, vals

    def fv_of(tok, vals):
        if tok in vals:
            return vals[tok]
        from mirsym.models import rust_parse_f64
        return rust_parse_f64(tok)

    def as_bound(tok, vals, side):
        """value of a bound / constraint side: magnitudes at or beyond the infinity value mean unbounded"""
        v = fv_of(tok, vals)
        if v.tag == 'fin' and isinstance(v.r, Fraction) and abs(v.r) >= Fraction(float(INF)):
            return NINF if side == 'lower' else PINF
        return v

    def expected(m, vals):
        O, V, C = m['type']
        hasc = C not in 'NB'
        n = m['n']

        def quad(entries):
            d = {}
            for i, j, t in entries:
                v = fv_of(t, vals).r
                k = tuple(sorted((i - 1, j - 1)))
                d[k] = r_add(d.get(k, Fraction(0)), r_mul(v, Fraction(1, 2)) if i == j else v)
            return d
        obj = quad(m['q0'])
        b0d = fv_of(m['b0_default'], vals).r
        lin = {i: b0d for i in range(n)}
        for i, t in m['b0']:
            lin[i - 1] = fv_of(t, vals).r
        for i, v in lin.items():
            obj[(i,)] = r_add(obj.get((i,), Fraction(0)), v)
        obj[()] = fv_of(m['q0_const'], vals).r
        cons = []
        if hasc:
            for k in range(m['m']):
                e = quad(m['qs'][k])
                for j, t in m['bs'][k]:
                    e[(j - 1,)] = r_add(e.get((j - 1,), Fraction(0)), fv_of(t, vals).r)
                cl = as_bound(dict(m['cl']).get(k + 1, m['cl_default']), vals, 'lower')
                cu = as_bound(dict(m['cu']).get(k + 1, m['cu_default']), vals, 'upper')
                if cu.tag == 'fin':
                    d = dict(e)
                    d[()] = r_neg(cu.r)
                    cons.append(d)
                if cl.tag == 'fin':
                    d = {kk: r_neg(v) for kk, v in e.items()}
                    d[()] = cl.r
                    cons.append(d)
        vars_ = []
        for i in range(n):
            if V == 'B':
                lo, hi, kind = ZERO, ONE, 1
            else:
                lo = as_bound(dict(m['lb']).get(i + 1, m['lb_default']), vals, 'lower')
                hi = as_bound(dict(m['ub']).get(i + 1, m['ub_default']), vals, 'upper')
                code_t = {'C': '0', 'I': '1'}.get(V) or dict(m['vt']).get(i + 1, m['vt_default'])
                kind = {'0': 3, '1': 2, '2': 1}[code_t]
            vars_.append((kind, lo, hi, dict(m['var_names']).get(i + 1)))
        return {'objective': obj, 'cons': cons, 'vars': vars_, 'sense': 2 if m['sense'].lower() == 'maximize' else 1}

    def mk(code, wide=False):
        def h(P):
            m, vals = mk_model(P, code, wide)
            lines = render(m)
            exp = expected(m, vals)

            def text_of(mdl):
                from mirsym.models import rust_f64_display
                out = []
                for ln in lines:
                    for k, v in vals.items():
                        if k in ln:
                            ln = ln.replace(k, rust_f64_display(valconv.fv_to_float(v, mdl)))
                    out.append(ln)
                return out

            def witness(mdl):
                text = text_of(mdl)
                cvals = {k: FV('fin', valconv.fv_to_fraction(v, mdl)) for k, v in vals.items()}
                want = expected(m, cvals)
                return ({'op': 'qplib_load', 'text': '\n'.join(text) + '\n'},
                        (lambda res: 'ok' not in res or not concrete_matches(chk.unhex(res['ok']['instance'], MSGI), want)), 'QPLIB text:\n' + '\n'.join(text))

            def role(mdl):
                if any(i == j for i, j, _ in m['q0']) or any(i == j for qs in m['qs'] for i, j, _ in qs):
                    return 'diagonal-of-Q-not-halved'
                return None
            try:
                res = run_import(P, lines)
            except RustPanic:
                P.fail('no-panic', witness, role)
                return
            if res.vname != 'Ok':
                P.fail('well-formed-file-accepted', witness, role)
                return
            inst = rd.instance(res.f[0])
            conj = [scalar_eq(inst['sense'], exp['sense']), len(inst['vars']) == len(exp['vars'])]

            def canon(fval):
                d = {}
                for ids, c in (read_monos(chk, fval)[0] if fval is not None else []):
                    k = tuple(sorted(ids))
                    d[k] = r_add(d.get(k, Fraction(0)), c.r)
                return d
            got = canon(inst['objective'])
            for k in set(got) | set(exp['objective']):
                conj.append(r_cmp('eq', got.get(k, Fraction(0)), exp['objective'].get(k, Fraction(0))))
            if not P.require('objective-and-sense', b_and(*conj), witness, role):
                return
            conj = []
            # variables
            for v, (kind, lo, hi, name) in zip(inst['vars'], exp['vars']):
                b = v['bound']
                if b is None:
                    conj.append(False)
                    continue
                # integer variables with bounds (0,1) / (0,0) / (1,1) are reported as binary
                if kind != 2:
                    kind_ok = v['kind'] == kind
                else:
                    # an integer variable is reported as binary exactly when its bounds are (0,1), (0,0) or (1,1)
                    def is_(x, n):
                        return x.tag == 'fin' and r_cmp('eq', x.r, Fraction(n))
                    as_binary = b_or(b_and(is_(lo, 0), is_(hi, 1)), b_and(is_(lo, 0), is_(hi, 0)), b_and(is_(lo, 1), is_(hi, 1)))
                    kind_ok = b_or(b_and(as_binary, v['kind'] == 1), b_and(b_not(as_binary), v['kind'] == 2))
                conj += [kind_ok, same_end(b[0], lo), same_end(b[1], hi), v['name'] == name]
            if not P.require('variables', b_and(*conj), witness, role):
                return
            conj = []
            # constraints: every expected <=0 constraint present exactly once (matched by denotation), all of kind <=0
            gotc = [canon(c['function']) for c in inst['cons']]
            conj.append(len(gotc) == len(exp['cons']))
            conj += [scalar_eq(c['equality'], LE) for c in inst['cons']]
            if len(gotc) == len(exp['cons']):
                for perm in [None]:
                    pass
                # the converter emits [c_u] then [c_l] per file constraint, in file order: compare in that order
                for g, e in zip(gotc, exp['cons']):
                    for k in set(g) | set(e):
                        conj.append(r_cmp('eq', g.get(k, Fraction(0)), e.get(k, Fraction(0))))
            P.require('constraints', b_and(*conj), witness, role)
        return h

    def same_end(a, b):
        if a.tag != b.tag:
            return False
        return True if a.tag != 'fin' else r_cmp('eq', a.r, b.r)

    for code in codes:
        chk.harness(f'import:{code}', mk(code), max_paths=6000)
    if chk.tier == 'thorough':
        for code in ['QMQ', 'QCL', 'DGD', 'LIL', 'CBC', 'QGN']:
            chk.harness(f'import-wide:{code}', mk(code, True), max_paths=6000)

    FAULTS = ['bad-type-letter', 'bad-sense', 'bad-var-type', 'non-number', 'eof', 'count-too-large', 'missing-value', 'index-zero', 'index-too-large']

    def mk_fault(fault):
        def h(P):
            m, vals = mk_model(P, 'QGQ')
            lines = render(m)
            original = list(lines)
            first = lines.index(m['type'])
            if fault == 'bad-type-letter':
                lines[first] = 'QXQ'
            elif fault == 'bad-sense':
                lines[first + 1] = 'maximise'
            elif fault == 'bad-var-type':
                lines = [ln.replace(m['vt_default'] + ' # default variable type', '7 # default variable type') for ln in lines]
            elif fault == 'non-number':
                lines = [ln.replace(m['q0_const'], '12..5') for ln in lines]
            elif fault == 'eof':
                lines = lines[:len(lines) // 2]
            elif fault == 'count-too-large':
                lines[-2] = '5 # constraint names'
            elif fault == 'missing-value':
                lines[-1] = '1 # the name is missing'
            elif fault in ('index-zero', 'index-too-large'):
                tgt = f"{m['ub'][0][0]} {m['ub'][0][1]} # non-default bound"
                if tgt not in lines:
                    raise Inconclusive('fault injection: upper-bound entry line not found')
                lines = [(('0' if fault == 'index-zero' else '9') + ln[1:] if ln == tgt else ln) for ln in lines]

            if lines == original:
                raise Inconclusive(f'fault injection {fault}: the rendered file was not changed')
            # the physical line (1-based, comment and blank lines counted) the error has to name
            if len(lines) < len(original) or fault == 'count-too-large':
                bad_line = len(lines)
            else:
                bad_line = 1 + [i for i, (x, y) in enumerate(zip(lines, original)) if x != y][0]

            def witness(mdl):
                from mirsym.models import rust_f64_display
                out = []
                for ln in lines:
                    for k, v in vals.items():
                        if k in ln:
                            ln = ln.replace(k, rust_f64_display(valconv.fv_to_float(v, mdl)))
                    out.append(ln)
                def judge(res):
                    if 'err' not in res:
                        return True
                    mm = re.search(r'at line (\d+)', res['err'])
                    return mm is None or int(mm.group(1)) != bad_line
                return {'op': 'qplib_load', 'text': '\n'.join(out) + '\n'}, judge, f'fault {fault} on line {bad_line}:\n' + '\n'.join(out)
            try:
                res = run_import(P, lines)
            except RustPanic as e:
                P.fail('fault-reported-not-panic', witness, role=fault + ':panic')
                return
            if not P.require('fault-reported-as-error', res.vname != 'Ok', witness, role=fault):
                return
            data = getattr(res.f[0], 'data', None)
            ln = deref(data).f[0] if isinstance(deref(data), Agg) and 'QplibParseError' in str(deref(data).ty) else None
            P.require('error-carries-the-line-number', ln == bad_line, witness, role=fault + ':line-number')
        return h
    for f in FAULTS:
        chk.harness(f'fault:{f}', mk_fault(f), max_paths=5000)
    chk.validation('qplib import', lambda c: validate(c, from_lines, convert))


def concrete_matches(inst, want):
    def cz(d):
        return {k: v for k, v in d.items() if v != 0}

    def same(a, b):
        a, b = cz(a), cz(b)
        return all(close(a.get(k, 0), b.get(k, 0), rel=1e-9) for k in set(a) | set(b))

    def conc(d):
        return {k: (v if isinstance(v, Fraction) else Fraction(0)) for k, v in d.items()}
    if inst['sense'] != want['sense'] or len(inst['decision_variables']) != len(want['vars']):
        return False
    if not same(canon_poly(fn_monomials(inst['objective']), False), conc(want['objective'])):
        return False
    for v, (kind, lo, hi, name) in zip(inst['decision_variables'], want['vars']):
        if v['name'] != name or v['bound'] is None:
            return False
        elo = -math.inf if lo.tag == 'ninf' else math.inf if lo.tag == 'pinf' else float(lo.r)
        ehi = math.inf if hi.tag == 'pinf' else -math.inf if hi.tag == 'ninf' else float(hi.r)
        if kind == 2:
            want_kind = 1 if (elo, ehi) in ((0.0, 1.0), (0.0, 0.0), (1.0, 1.0)) else 2
        else:
            want_kind = kind
        if v['kind'] != want_kind:
            return False
        if not close(v['bound']['lower'], elo) or not close(v['bound']['upper'], ehi):
            return False
    if len(inst['constraints']) != len(want['cons']):
        return False
    for c, e in zip(inst['constraints'], want['cons']):
        if c['equality'] != 2 or not same(canon_poly(fn_monomials(c['function']), False), conc(e)):
            return False
    return True


def validate(chk, from_lines, convert):
    from mirsym.models import list_iter
    rng = chk.rng
    n = 40 if chk.tier == 'quick' else 300
    for t in range(n):
        def q():
            return str(rng.randint(-12, 12) / 4)
        code = rng.choice('LDCQ') + rng.choice('CBMIG') + rng.choice('NBLDCQ')
        O, V, C = code
        hasc = C not in 'NB'
        nn, mm = rng.randint(1, 3), (rng.randint(1, 2) if hasc else 0)
        m = {'name': 'p', 'type': code, 'sense': rng.choice(['minimize', 'maximize']), 'n': nn, 'm': mm, 'infinity': INF, 'comment': rng.random() < .5,
             'q0': [] if O == 'L' else [(i, j, q()) for i in range(1, nn + 1) for j in range(1, i + 1) if rng.random() < .5 and (O != 'D' or i == j)],
             'b0_default': rng.choice(['0.0', q()]), 'b0': [(i, q()) for i in range(1, nn + 1) if rng.random() < .4], 'q0_const': q(),
             'qs': [[(i, j, q()) for i in range(1, nn + 1) for j in range(1, i + 1) if rng.random() < .4] if (hasc and C != 'L') else [] for _ in range(mm)] if hasc else [],
             'bs': [[(j, q()) for j in range(1, nn + 1) if rng.random() < .6] for _ in range(mm)] if hasc else [],
             'cl_default': rng.choice([q(), '-' + INF]), 'cu_default': rng.choice([q(), INF]), 'cl': [(i, q()) for i in range(1, mm + 1) if rng.random() < .3],
             'cu': [(i, q()) for i in range(1, mm + 1) if rng.random() < .3],
             'lb_default': rng.choice(['0.0', '-' + INF, q()]), 'ub_default': rng.choice([INF, '10']), 'lb': [], 'ub': [(1, '5.5')] if rng.random() < .5 else [],
             'vt_default': rng.choice('012'), 'vt': [(1, rng.choice('012'))] if rng.random() < .5 else [],
             'var_names': [(1, 'x_one')] if rng.random() < .5 else [], 'con_names': [(1, 'c_one')] if hasc and rng.random() < .5 else []}
        lines = render(m)
        case = {'op': 'qplib_load', 'text': '\n'.join(lines) + '\n'}

        def norm(d):
            if d is None:
                return 'err'
            return (d['sense'], [(v['id'], v['kind'], v['bound']['lower'], v['bound']['upper'], v['name']) for v in d['decision_variables']],
                    sorted((k, float(v)) for k, v in canon_poly(fn_monomials(d['objective'])).items()),
                    [(c['id'], c['equality'], c['name'], sorted((k, float(v)) for k, v in canon_poly(fn_monomials(c['function'])).items())) for c in d['constraints']],
                    d['description']['name'], d['description']['description'])

        def py(it, lines=lines):
            r = it.run_body(from_lines, [list_iter([RString(x) for x in lines])])
            if r.vname != 'Ok':
                return 'err'
            r2 = it.run_body(convert, [r.f[0]])
            return 'err' if r2.vname != 'Ok' else norm(chk.conv.to_dict(r2.f[0], MSGI))
        chk.validate('qplib import', py, case, lambda res: norm(chk.unhex(res['ok']['instance'], MSGI)) if 'ok' in res else 'err')


if __name__ == '__main__':
    main('C19', build)
