"""C16 — interval bounds enclose every attainable value (engine K for additive/scaling/rounding kernels under true IEEE-754,
engine M for the multiplicative kernels and Function::evaluate_bound in the R-model)."""
import itertools, math
import z3
from fractions import Fraction
from .common import *
from .oracles import *
from .shapes import *
from .instances import *
from .c03 import build_function_choose
from . import kani_runner
from mirsym.interp import f_cmp, f_mul, f_powi, deep_clone

KANI_PROOFS = ['bound_new_accepts_exactly_valid', 'add_encloses', 'add_scalar_encloses', 'scale_encloses', 'integer_bound_keeps_integers',
               'nearest_to_zero_in_bound_and_minimal', 'intersection_is_meet', 'partial_ord_scalar']
KANI_SLOW = ['contains_matches_rule']
KANI_PROBES = {'add_full_range_no_panic': 'Bound + Bound panics (Bound::new(..).unwrap()) when finite endpoints near f64::MAX overflow to +inf at the lower endpoint, e.g. [f64::MAX, f64::MAX] + [1e292, 6e292]',
               'scale_full_range_no_panic': 'Bound * f64 with a finite non-zero factor panics (Bound::new(..).unwrap()) when an endpoint product overflows, e.g. [1e308, 1e308] * 10'}


def kani_job(chk):
    harnesses = KANI_PROOFS + (KANI_SLOW if chk.tier == 'thorough' else []) + list(KANI_PROBES)
    t = time.time()
    res = kani_runner.run_kani(harnesses)
    h = {'name': 'kani:bound-kernels', 'paths': len(harnesses), 'obligations': len(harnesses), 'discharged': 0, 'regions': {}, 'status': 'ok', 'queries': len(harnesses),
         'wall_s': round(time.time() - t, 1), 'confirmed': [], 'unconfirmed': [], 'engine': 'kani 0.68 / cbmc 6.11 (cadical), true IEEE-754 binary64',
         'bounds': {'domain': 'fully symbolic doubles for new/contains/nearest_to_zero/intersection/partial_cmp/as_integer_bound (finite magnitudes <= 1e150 for as_integer_bound); '
                    'add / + f64 / * f64 enclosure on the restricted domain {0, +-inf, +-m*2^e with 6-bit mantissa field, |e|<=8}; no loops (unwind not needed)', 'harnesses': harnesses}}
    if res.get('error'):
        h['status'] = 'inconclusive'
        h['why'] = 'kani: ' + str(res.get('error')) + ' ' + str(res.get('out', res.get('tail', '')))[-600:]
        return h
    h['discharged'] = len(res['ok'])
    for name in res['failed']:
        rec = {'property': 'C16', 'harness': 'kani', 'label': name, 'role': name, 'description': KANI_PROBES.get(name, f'Kani harness {name} failed'), 'case': None}
        try:
            ok, test_src, log = kani_runner.playback(name)
        except Exception as e:
            ok, test_src, log = False, '', repr(e)
        rec['case'] = {'kani_concrete_playback_test': test_src}
        rec['native_result'] = log[-800:]
        if ok:
            h['confirmed'].append(rec)
        else:
            rec['why'] = 'kani counterexample did not reproduce in concrete playback: ' + log[-400:]
            h['unconfirmed'].append(rec)
    # a probe that is listed as a known finding but now passes is simply fine (the defect is gone)
    return h


def build(chk):
    eng = chk.eng
    B, rd = Build(chk), Rd(chk)
    chk.bounds = {'engine K': 'see harness record kani:bound-kernels', 'engine M': 'Bound::mul, Bound::pow (exponent 0..6) with every endpoint in {-inf, symbolic real, +inf}; Function::evaluate_bound with coefficients from {-3/2, 2}, listed id patterns per shape: '
                  'degree <= 2 with symbolic box endpoints (incl. +-inf, degenerate, sign-crossing), degree 3-4 with endpoints from {-inf,-2,0,1,3,+inf}; points symbolic inside the box; '
                  'a variable without an entry in the bounds map is unbounded'}
    chk.assumptions += ['engine M uses the R-model (exact real arithmetic with IEEE rules for inf/NaN): monotonicity of IEEE rounding is a property of the arithmetic and outside this half of the claim',
                        'engine K harness crate /verif/kani links the real crate; counterexamples are replayed by Kani concrete playback (the harness run natively with the solver values)',
                        'content_factor ("smallest multiplier" clause): the continued-fraction loop of Rational64::approximate_float and the gcd/lcm of the external num crate are not symbolically tractable, '
                        'so Function::content_factor is executed from MIR on CONCRETE rational coefficients only (every tuple over the listed pool, explored by the same executor, no solver variables) and '
                        'compared with lcm(denominators)/gcd(numerators) in exact arithmetic: this sub-clause is bounded exhaustive exploration of the real code, not a solver verdict, and is labelled so',
                        'scaling by a non-zero number excludes 0 * inf (the property says non-zero)']
    chk.external('kani:bound-kernels', kani_job)

    mul = eng.find_body(lambda b: b.name.split('::')[-1] == 'mul' and b.param_tys == ['bound::Bound', 'bound::Bound'])
    powb = eng.method('pow', first_param='&bound::Bound')
    evb = eng.method('evaluate_bound', first_param='&v1::Function')

    def sym_bound(P, pre):
        """valid bound with endpoint tags by explored choice; returns (Agg bound::Bound, (lo FV, hi FV))"""
        lt = ['fin', 'ninf'][P.choose(2)]
        ut = ['fin', 'pinf'][P.choose(2)]
        lo = P.real(pre + 'l') if lt == 'fin' else NINF
        hi = P.real(pre + 'u') if ut == 'fin' else PINF
        if lt == 'fin' and ut == 'fin':
            P.ctx.assume(lo.r <= hi.r)
        return Agg([lo, hi], 'bound::Bound'), (lo, hi)

    def point_in(P, name, b):
        lo, hi = b
        x = P.real(name)
        if lo.tag == 'fin':
            P.ctx.assume(lo.r <= x.r)
        if hi.tag == 'fin':
            P.ctx.assume(x.r <= hi.r)
        return x

    def encloses(res, v):
        """res: Agg bound; v: z3 real / Fraction -> condition that res is valid and contains v"""
        lo, hi = res.f
        conj = [lo.tag != 'nan', hi.tag != 'nan', lo.tag != 'pinf', hi.tag != 'ninf']
        if lo.tag == 'fin' and hi.tag == 'fin':
            conj.append(r_cmp('le', lo.r, hi.r))
        if lo.tag == 'fin':
            conj.append(r_cmp('le', lo.r, v))
        if hi.tag == 'fin':
            conj.append(r_cmp('le', v, hi.r))
        return b_and(*conj)

    def bj(b, model):
        return [fjs(valconv.fv_to_float(b[0], model)), fjs(valconv.fv_to_float(b[1], model))]

    def inside(bound, v):
        lo, hi = fsj(bound[0]), fsj(bound[1])
        return lo <= hi and lo != math.inf and hi != -math.inf and lo - 1e-9 * (1 + abs(v)) <= v <= hi + 1e-9 * (1 + abs(v))

    def h_mul(P):
        a, ab = sym_bound(P, 'a')
        b, bb = sym_bound(P, 'b')
        p, q = point_in(P, 'p', ab), point_in(P, 'q', bb)

        def witness(model):
            case = {'op': 'bound_ops', 'a': bj(ab, model), 'b': bj(bb, model), 'exp': 1}
            pv, qv = valconv.fv_to_float(p, model), valconv.fv_to_float(q, model)
            return case, (lambda res: 'ok' not in res or not inside(res['ok']['mul'], pv * qv)), f'{case} point {pv} * {qv}'
        try:
            res = P.it.run_body(mul, [a, b])
        except RustPanic:
            P.fail('no-panic', witness)
            return
        P.cover('unbounded-factor', ab[0].tag != 'fin' or bb[1].tag != 'fin')
        P.require('product-enclosed', encloses(res, r_mul(p.r, q.r)), witness)
    chk.harness('Bound::mul', h_mul, regions=['unbounded-factor'])

    # Bound * f64 for EVERY non-zero real factor (the Kani harness covers true doubles on a restricted magnitude range only)
    scale = eng.find_body(lambda b: b.name.split('::')[-1] == 'mul' and b.param_tys == ['bound::Bound', 'f64'])

    def h_scale(P):
        a, ab = sym_bound(P, 'a')
        k = P.real('k')
        P.ctx.assume(k.r != 0)
        p = point_in(P, 'p', ab)

        def witness(model):
            kv, pv = valconv.fv_to_float(k, model), valconv.fv_to_float(p, model)
            case = {'op': 'bound_scale', 'a': bj(ab, model), 'k': fjs(kv)}

            def judge(res):
                if 'ok' not in res:
                    return True
                lo, hi = fsj(res['ok'][0]), fsj(res['ok'][1])
                v = kv * pv
                return not (lo <= hi and lo != math.inf and hi != -math.inf and lo - 1e-9 * abs(v) <= v <= hi + 1e-9 * abs(v))
            return case, judge, f'{case} point {pv}'
        try:
            res = P.it.run_body(scale, [a, k])
        except RustPanic:
            P.fail('no-panic', witness)
            return
        P.cover('negative-factor', f_cmp('lt', k, ZERO))
        P.require('scaled-point-enclosed', encloses(res, r_mul(k.r, p.r)), witness)
    chk.harness('Bound*f64', h_scale, regions=['negative-factor'])

    def mk_pow(n):
        def h(P):
            a, ab = sym_bound(P, 'a')
            p = point_in(P, 'p', ab)

            def witness(model):
                case = {'op': 'bound_ops', 'a': bj(ab, model), 'b': [0.0, 0.0], 'exp': n}
                pv = valconv.fv_to_float(p, model)
                return case, (lambda res: 'ok' not in res or not inside(res['ok']['pow'], pv ** n)), f'{case} point {pv}^{n}'
            try:
                res = P.it.run_body(powb, [ref_to(a), n])
            except RustPanic:
                P.fail('no-panic', witness)
                return
            v = Fraction(1)
            for _ in range(n):
                v = r_mul(v, p.r)
            P.require('power-enclosed', encloses(res, v), witness)
        return h
    for n in range(0, 7 if chk.tier == 'thorough' else 5):
        chk.harness(f'Bound::pow/{n}', mk_pow(n))

    COEFS = [Fraction(-3, 2), Fraction(1), Fraction(2), Fraction(0)]
    ENDS = [Fraction(-2), Fraction(0), Fraction(1), Fraction(3)]

    def conc_bound(P):
        """bound with concrete endpoints chosen from {-inf} u ENDS u {+inf} (explored)"""
        li = P.choose(len(ENDS) + 1)
        lo = NINF if li == len(ENDS) else fin(ENDS[li])
        ups = [e for e in ENDS if lo.tag != 'fin' or e >= lo.r] + [None]
        ui = P.choose(len(ups))
        hi = PINF if ups[ui] is None else fin(ups[ui])
        return Agg([lo, hi], 'bound::Bound'), (lo, hi)

    def mk_evb(shape, concrete_box, patterns):
        nco = {'constant': 1, 'linear': shape[1] + 1 if shape[0] == 'linear' else 0}.get(shape[0], 0)

        def h(P):
            pat = list(patterns[P.choose(len(patterns))])
            slot = [0]
            oldchoose = P.choose

            def newid():
                slot[0] += 1
                return pat[slot[0] - 1]
            M = chk.M
            coef = lambda n: fin([Fraction(-3, 2), Fraction(2)][oldchoose(2)])
            kind = shape[0]
            if kind == 'constant':
                c = coef('c')
                fval, sf = M.function('Constant', c), SymFn([([], c)])
            elif kind == 'linear':
                v, m = build_linear(P, shape[1], 'f', newid, coef)
                fval, sf = M.function('Linear', v), SymFn(m)
            elif kind == 'quadratic':
                v, m = build_quadratic(P, shape[1], shape[2], 'f', newid, coef)
                fval, sf = M.function('Quadratic', v), SymFn(m)
            else:
                v, m = build_polynomial(P, shape[1], 'f', newid, coef)
                fval, sf = M.function('Polynomial', v), SymFn(m)
            used = sorted(set(sf.ids()))
            bounds, boxes = [], {}
            for i in used:
                if i == 2:          # variable 2 has no entry in the bounds map: unbounded
                    boxes[i] = (NINF, PINF)
                    continue
                bv, bb = conc_bound(P) if concrete_box else sym_bound(P, f'b{i}')
                bounds.append([Agg([i], 'VariableID'), bv])
                boxes[i] = bb
            xs = {i: point_in(P, f'x{i}', boxes[i]) for i in boxes}
            bmap = RMap('hash', False, bounds)

            def witness(model):
                fd = chk.conv.to_dict(fval, 'ommx.v1.Function', model)
                case = {'op': 'evaluate_bound', 'f': chk.hexdict(fd, 'ommx.v1.Function'), 'bounds': {str(i): bj(boxes[i], model) for i in boxes if i != 2}}
                pt = {i: Fraction(valconv.fv_to_float(xs[i], model)) for i in xs}
                val = float(fn_eval(fd, pt))
                return case, (lambda res: 'ok' not in res or not inside(res['ok']['bound'], val)), f'evaluate_bound({fd}) on {case["bounds"]}: value {val} at {pt}'
            try:
                res = P.it.run_body(evb, [ref_to(fval), ref_to(bmap)])
            except RustPanic:
                P.fail('no-panic', witness)
                return
            v = sf.denote(lambda i: xs[i].r)
            # asked first with a margin of 1 (implied by the exact claim): a counterexample to it survives the rounding tolerance of the
            # native replay judge, whereas the solver is otherwise free to return a violation of size 1e-32
            lo_, hi_ = res.f
            margin = b_and(r_cmp('le', r_sub(lo_.r, Fraction(1)), v) if lo_.tag == 'fin' else True, r_cmp('le', v, r_add(hi_.r, Fraction(1))) if hi_.tag == 'fin' else True)
            if not P.require('function-value-enclosed-within-margin-1', margin, witness):
                return
            P.require('function-value-enclosed', encloses(res, v), witness)
        return h
    shapes = [(('constant',), False, [()]), (('linear', 1), False, [(0,), (2,)]), (('linear', 2), False, [(0, 1), (0, 0), (0, 2)]),
              (('quadratic', 1, None), False, [(0, 1), (0, 0), (1, 2)]), (('quadratic', 1, 1), False, [(0, 1, 0), (0, 0, 1)]), (('polynomial', (2,)), False, [(0, 1), (1, 1)]),
              (('polynomial', (3,)), True, [(0, 0, 0), (0, 0, 1), (0, 1, 2)]), (('polynomial', (1, 2)), True, [(0, 0, 1), (1, 0, 0)])]
    if chk.tier == 'thorough':
        shapes += [(('polynomial', (4,)), True, [(0, 0, 0, 0), (0, 0, 1, 1), (0, 1, 1, 1)]), (('polynomial', (2, 2)), True, [(0, 0, 1, 1), (0, 1, 0, 1)]),
                   (('quadratic', 2, 1), False, [(0, 1, 1, 1, 0)]), (('polynomial', (1, 3)), True, [(0, 0, 0, 1)])]
    for sh, cb, pats in shapes:
        chk.harness(f'evaluate_bound:{"/".join(map(str, sh))}{"/concrete-box" if cb else ""}', mk_evb(sh, cb, pats), max_paths=30000)
    content_factor_harness(chk)
    chk.validation('Bound ops', lambda c: validate(c, mul, powb, evb))


CF_POOL = [Fraction(x) for x in (1, 2, 3, 4, 6, -6, 10, 0)] + [Fraction(a, b) for a, b in ((1, 2), (1, 3), (2, 3), (3, 4), (3, 8), (-5, 6), (7, 60), (15, 2), (9, 10))]


def content_factor_harness(chk):
    import math
    eng = chk.eng
    cf = eng.method('content_factor', first_param='&v1::Function')
    M = chk.M
    chk.bounds['content_factor'] = ('concrete coefficients from the pool {' + ', '.join(str(x) for x in CF_POOL) + '} (each as its nearest binary64): constant; linear with 2 terms + constant (all triples); '
                                    'quadratic with one product + one linear term; cubic monomial + constant (all pairs)')

    def fv(x):
        return FV('fin', Fraction(float(x)))

    def mk(shape):
        def h(P):
            n = {'constant': 1, 'linear': 3, 'quadratic': 2, 'polynomial': 2}[shape]
            cs = [CF_POOL[P.choose(len(CF_POOL))] for _ in range(n)]
            if shape == 'constant':
                f = M.function('Constant', fv(cs[0]))
            elif shape == 'linear':
                f = M.function('Linear', M.linear([(1, fv(cs[0])), (4, fv(cs[1]))], fv(cs[2])))
            elif shape == 'quadratic':
                f = M.function('Quadratic', M.quadratic([(1, 2, fv(cs[0]))], M.linear([(2, fv(cs[1]))], fv(Fraction(0)))))
            else:
                f = M.function('Polynomial', M.polynomial([([1, 1, 3], fv(cs[0])), ([], fv(cs[1]))]))
            nz = [c for c in cs if c != 0]
            if nz:
                g, l = 0, 1
                for c in nz:
                    g = math.gcd(g, abs(c.numerator))
                    l = l * c.denominator // math.gcd(l, c.denominator)
                want = Fraction(l, g)
            else:
                want = Fraction(1)

            def witness(model):
                case = {'op': 'content_factor', 'f': chk.hexmsg(f, 'ommx.v1.Function', model)}
                return case, (lambda res: 'ok' not in res or abs(res['ok'] - float(want)) > 1e-12 * float(want)), f'content_factor of {shape} with coefficients {[str(c) for c in cs]}: minimal multiplier is {want}'
            try:
                r = P.it.run_body(cf, [ref_to(f)])
            except RustPanic:
                P.fail('no-panic', witness)
                return
            if r.vname != 'Ok':
                P.fail('multiplier-exists', witness)
                return
            a = r.f[0]
            P.cover('integral-gcd>1', bool(nz) and all(c.denominator == 1 for c in nz) and want != 1)
            P.cover('fractional', any(c.denominator != 1 for c in nz))
            ok = isinstance(a, FV) and a.tag == 'fin' and isinstance(a.r, Fraction) and abs(a.r - want) <= Fraction(1, 10 ** 12) * want
            P.require('smallest-integral-multiplier', ok, witness)
        return h
    for shape in ('constant', 'linear', 'quadratic', 'polynomial'):
        chk.harness('content_factor:' + shape, mk(shape), regions=['integral-gcd>1', 'fractional'] if shape != 'constant' else ['fractional'], max_paths=6000)


def validate(chk, mul, powb, evb):
    from .c01 import random_function_dict
    rng = chk.rng
    n = 60 if chk.tier == 'quick' else 400

    def rb():
        lo = rng.choice([-math.inf, -2.0, -0.5, 0.0, 1.0])
        hi = rng.choice([x for x in [math.inf, 3.0, 0.5, 0.0, -0.25, 1.0] if x >= lo])
        return lo, hi
    # content_factor: the binary64 port of approximate_float against the native crate (decimal, dyadic and irrational coefficients)
    cfb = chk.eng.method('content_factor', first_param='&v1::Function')
    for t in range(n):
        cs = [rng.choice([round(rng.uniform(-5, 5), rng.randint(0, 4)), float(rng.choice(CF_POOL)), rng.uniform(-3, 3), float(rng.randint(-12, 12))]) for _ in range(3)]
        fd = {'function': ('linear', {'terms': [{'id': 1, 'coefficient': cs[0]}, {'id': 2, 'coefficient': cs[1]}], 'constant': cs[2]})}
        case = {'op': 'content_factor', 'f': chk.hexdict(fd, 'ommx.v1.Function')}
        fv_ = chk.conv.from_dict(fd, 'ommx.v1.Function')

        def py(it, fv_=fv_):
            r = it.run_body(cfb, [ref_to(fv_)])
            return ('ok', float(r.f[0].r)) if r.vname == 'Ok' else ('err',)
        chk.validate('content_factor', py, case, lambda res: ('ok', res['ok']) if 'ok' in res else ('err',))
    for t in range(n):
        a, b = rb(), rb()
        e = rng.randint(0, 5)
        case = {'op': 'bound_ops', 'a': [fjs(a[0]), fjs(a[1])], 'b': [fjs(b[0]), fjs(b[1])], 'exp': e}

        def py(it, a=a, b=b, e=e):
            A = Agg([valconv.float_to_fv(a[0]), valconv.float_to_fv(a[1])], 'bound::Bound')
            Bv = Agg([valconv.float_to_fv(b[0]), valconv.float_to_fv(b[1])], 'bound::Bound')
            m = it.run_body(mul, [deep_clone(A), Bv])
            pw = it.run_body(powb, [ref_to(A), e])
            return [valconv.fv_to_float(m.f[0]), valconv.fv_to_float(m.f[1]), valconv.fv_to_float(pw.f[0]), valconv.fv_to_float(pw.f[1])]

        def nat(res):
            if 'ok' not in res:
                return res
            return [fsj(x) for x in res['ok']['mul'] + res['ok']['pow']]
        chk.validate('Bound::mul/pow', py, case, nat)
    shapes = [('linear', 2), ('quadratic', 2, 1), ('polynomial', (1, 2, 3)), ('polynomial', (4, 0))]
    for t in range(n // 2):
        fd = random_function_dict(rng, rng.choice(shapes), idmax=2, K=8, shift=2)
        bs = {i: rb() for i in range(3) if rng.random() < .8}
        case = {'op': 'evaluate_bound', 'f': chk.hexdict(fd, 'ommx.v1.Function'), 'bounds': {str(i): [fjs(v[0]), fjs(v[1])] for i, v in bs.items()}}
        fv = chk.conv.from_dict(fd, 'ommx.v1.Function')

        def py(it, fv=fv, bs=bs):
            bmap = RMap('hash', False, [[Agg([i], 'VariableID'), Agg([valconv.float_to_fv(v[0]), valconv.float_to_fv(v[1])], 'bound::Bound')] for i, v in bs.items()])
            r = it.run_body(evb, [ref_to(fv), ref_to(bmap)])
            return [valconv.fv_to_float(r.f[0]), valconv.fv_to_float(r.f[1])]

        def nat(res):
            return res if 'ok' not in res else [fsj(x) for x in res['ok']['bound']]
        chk.validate('Function::evaluate_bound', py, case, nat)


def fjs(x):
    return 'inf' if x == math.inf else '-inf' if x == -math.inf else x


def fsj(x):
    return math.inf if x == 'inf' else -math.inf if x == '-inf' else float(x)


if __name__ == '__main__':
    main('C16', build)
