"""C17 — MPS files are read as the problem they describe (engine M: parser state machine + conversion from MIR;
lexing primitives (lines, split_whitespace, trim, f64::from_str) are library models on concrete text with symbolic number tokens)."""
import itertools
import z3
from fractions import Fraction
from .common import *
from .oracles import *
from .instances import *
from .c02 import read_monos
from mirsym.interp import f_cmp

MSGI = 'ommx.v1.Instance'


class Tok:
    """symbolic number tokens embedded in the file text"""

    def __init__(self, P):
        self.P = P
        self.table = P.ctx.notes.setdefault('numtokens', {})

    def num(self, name, nonzero=False, lo=None, hi=None):
        v = self.P.real(name)
        if nonzero:
            self.P.ctx.assume(v.r != 0)
        key = '§%s§' % name
        self.table[key] = v
        return key, v


def render(model, layout):
    """independent writer: abstract model -> list of text lines (free-format MPS)"""
    L = []
    if layout.get('comments'):
        L.append('* produced by the harness writer')
    L.append('NAME          ' + model['name'])
    if model['sense'] is not None:
        if layout.get('objsense_inline'):
            L.append('OBJSENSE ' + model['sense'])
        else:
            L.append('OBJSENSE')
            L.append('    ' + model['sense'])
    L.append('ROWS')
    for r in model['rows']:
        L.append(f" {r['type']}  {r['name']}")
    if layout.get('blank'):
        L.append('')
    L.append('COLUMNS')
    marker = 0
    in_int = False
    for c in model['cols']:
        if c['integer'] and not in_int:
            L.append(f"    MARKER{marker}   'MARKER'      {model.get('intorg', chr(39) + 'INTORG' + chr(39))}")
            marker += 1
            in_int = True
        if not c['integer'] and in_int:
            L.append(f"    MARKER{marker}   'MARKER'      'INTEND'")
            marker += 1
            in_int = False
        ents = [(r, t) for r, t in c['entries']]
        if layout.get('five') and len(ents) >= 2:
            i = 0
            while i < len(ents):
                if i + 1 < len(ents):
                    L.append(f"    {c['name']}  {ents[i][0]}  {ents[i][1]}   {ents[i + 1][0]}  {ents[i + 1][1]}")
                    i += 2
                else:
                    L.append(f"    {c['name']}  {ents[i][0]}  {ents[i][1]}")
                    i += 1
        else:
            for r, t in ents:
                L.append(f"    {c['name']}  {r}  {t}")
        if layout.get('comments'):
            L.append('* a comment between columns')
    if in_int:
        L.append(f"    MARKER{marker}   'MARKER'      'INTEND'")
    def pairs(setname, ents):
        # data lines of RHS / RANGES carry one or (5-field layout) two (row, value) pairs, like COLUMNS lines
        i = 0
        while i < len(ents):
            if layout.get('five') and i + 1 < len(ents):
                L.append(f"    {setname}  {ents[i][0]}  {ents[i][1]}   {ents[i + 1][0]}  {ents[i + 1][1]}")
                i += 2
            else:
                L.append(f"    {setname}  {ents[i][0]}  {ents[i][1]}")
                i += 1
    L.append('RHS')
    pairs('RHS1', list(model['rhs']))
    if model['ranges']:
        L.append('RANGES')
        pairs('RNG1', list(model['ranges']))
    L.append('BOUNDS')
    for c in model['cols']:
        for bt, t in c['bounds']:
            if t is None:
                L.append(f" {bt} BND1  {c['name']}")
            else:
                L.append(f" {bt} BND1  {c['name']}  {t}")
    L.append('ENDATA')
    return L


BOUND_SCEN = [[], ['UP'], ['LO'], ['LO', 'UP'], ['FX'], ['MI'], ['PL'], ['FR'], ['BV'], ['LI'], ['UI'], ['MI', 'UP'], ['UP+'], ['LI', 'UI']]


def expected_domain(col, vals):
    """(integer?, lower FV|cond, upper) from the bound table; returns dict with symbolic conditions where the sign of UP matters"""
    lo, hi = ZERO, PINF
    integer = col['integer']
    binary = False
    has_lo = False
    up_alone = None
    for bt, t in col['bounds']:
        v = vals.get(t)
        if bt == 'UP':
            hi = v
            up_alone = v
        elif bt == 'LO':
            lo = v
            has_lo = True
        elif bt == 'FX':
            lo = hi = v
            has_lo = True
        elif bt == 'MI':
            lo = NINF
            has_lo = True
        elif bt == 'PL':
            hi = PINF
        elif bt == 'FR':
            lo, hi = NINF, PINF
            has_lo = True
        elif bt == 'BV':
            binary = True
        elif bt == 'LI':
            lo = v
            integer = True
            has_lo = True
        elif bt == 'UI':
            hi = v
            integer = True
            up_alone = v
    open_lower_if_negative = (up_alone is not None and not has_lo)
    return {'integer': integer or binary, 'binary': binary, 'lo': lo, 'hi': hi, 'open_if_neg': up_alone if open_lower_if_negative else None}


def build(chk):
    eng = chk.eng
    from_lines = eng.find_body(lambda b: b.name.startswith('mps::parser::') and b.name.endswith('::from_lines'))
    convert = eng.find_body(lambda b: b.name == 'mps::convert::convert')
    rd = Rd(chk)
    chk.bounds = {'models': '2 columns x 2 rows + objective row (the property quantifies 6 x 5); every row type (E/L/G), every bound scenario ' + str(BOUND_SCEN) +
                  ', positive/negative ranges, objective constant through the RHS of the objective row, MIN/MAX/absent sense; all coefficients, right-hand sides, ranges and bound values symbolic reals',
                  'layouts': '3- or 5-field COLUMNS / RHS / RANGES lines, comment lines, blank line, OBJSENSE inline or on its own line, objective row named OBJ or COST',
                  'faults': 'undeclared row in COLUMNS / RHS / RANGES, unknown row type, bound type, marker, sense keyword, unparsable number'}
    chk.assumptions += ['lexing is modelled, not executed: BufRead::lines, str::trim/split_whitespace/starts_with/strip_prefix act on concrete text; f64::from_str maps a number token to a '
                        'symbolic real (assumed finite) and rejects text outside the Rust float grammar; gzip and byte-level decoding are outside',
                        'HashSet/HashMap iteration order: canonical (insertion) order in the bulk harnesses; every order for the 2-column id-assignment harness',
                        'comparison by variable / row name and by denotation; variable domains compared as (integrality, lower, upper) after intersecting binary with [0,1]',
                        'R-model', 'library models trusted and validated natively each run']

    def run_import(P, lines):
        it = P.it
        from mirsym.models import list_iter
        r = it.run_body(from_lines, [list_iter([RString(x) for x in lines])])
        if r.vname != 'Ok':
            return r
        return it.run_body(convert, [r.f[0]])

    def mk_model(P, variant):
        T = Tok(P)
        objname = ['OBJ', 'COST'][P.choose(2)] if variant in ('objective', 'rows') else 'OBJ'
        vals = {}

        def num(name, **kw):
            k, v = T.num(name, **kw)
            vals[k] = v
            return k
        NC, NR = (3, 3) if variant == 'wide' else (2, 2)      # 'wide' (thorough tier): 3 columns x 3 rows, every row type, all entries present
        rtypes = [['E', 'L', 'G'][P.choose(3)] for _ in range(NR)] if variant in ('rows', 'ranges', 'wide') else ['L', 'E']
        rows = [{'type': 'N', 'name': objname}] + [{'type': t, 'name': f'R{i}'} for i, t in enumerate(rtypes)]
        cols = []
        for j in range(NC):
            scen = BOUND_SCEN[P.choose(len(BOUND_SCEN))] if (variant == 'bounds' and j == 0) else ([['UP'], ['LO', 'UP'], ['MI']][j] if variant != 'bounds' else [])
            bounds = []
            for bt in scen:
                real = bt.rstrip('+')
                bounds.append((real, None if real in ('MI', 'PL', 'FR', 'BV') else num(f'b{j}{real}')))
            integer = bool(P.choose(2)) if variant in ('bounds', 'kinds') else (j == 1)
            ents = []
            if variant != 'sparse' or P.choose(2):
                ents.append((objname, num(f'c{j}')))
            for i in range(NR):
                if variant not in ('sparse',) or P.choose(2):
                    ents.append((f'R{i}', num(f'a{i}{j}')))
            if not ents:
                continue      # a column without any entry cannot be declared in an MPS file
            cols.append({'name': f'x{j}' if variant != 'names' else ['alpha', 'OMMX_VAR_7'][j], 'integer': integer, 'entries': ents, 'bounds': bounds})
        rhs = []
        if (variant in ('objective', 'rows') and P.choose(2)) or variant == 'wide':
            rhs.append((objname, num('k')))
        for i in range(NR):
            if P.choose(2) if variant in ('rows', 'sparse') else True:
                rhs.append((f'R{i}', num(f'b{i}')))
        ranges = []
        if variant in ('ranges', 'wide'):
            for i in range(NR if variant == 'ranges' else 1):
                if P.choose(2):
                    ranges.append((f'R{i}', num(f'r{i}', nonzero=True)))
        sense = [None, 'MIN', 'MAX'][P.choose(3)] if variant in ('objective',) else 'MAX'
        return {'name': 'prob', 'sense': sense, 'rows': rows, 'cols': cols, 'rhs': rhs, 'ranges': ranges, 'objname': objname}, vals

    def check_instance(P, model, vals, res, witness, role=None):
        if res.vname != 'Ok':
            P.fail('well-formed-file-accepted', witness, role)
            return
        inst = rd.instance(res.f[0])
        byname = {v['name']: v for v in inst['vars']}
        conj = [sorted(byname) == sorted(c['name'] for c in model['cols']), len(inst['vars']) == len(model['cols'])]
        if not all(conj):
            P.fail('variables-by-name', witness, role)
            return
        idof = {n: v['id'] for n, v in byname.items()}
        conj.append(len(set(idof.values())) == len(idof))
        # sense
        conj.append(scalar_eq(inst['sense'], 2 if model['sense'] == 'MAX' else 1))
        # variable domains
        for c in model['cols']:
            d = expected_domain(c, vals)
            v = byname[c['name']]
            kind = v['kind']
            b = v['bound']
            if b is None:
                conj.append(False)
                continue
            alo, ahi = b
            # effective domain of the actual variable
            a_int = kind in (1, 2)
            if kind == 1:
                alo = alo if not (alo.tag == 'fin' and isinstance(alo.r, Fraction) and alo.r <= 0) else ZERO
            conj.append(a_int == d['integer'])
            elo, ehi = d['lo'], d['hi']
            if d['binary']:
                conj.append(kind == 1 or (kind == 2))
                # binary: domain {0,1} regardless of the written bound
                conj.append(f_cmp('le', alo, ZERO) if alo.tag != 'nan' else False)
                conj.append(f_cmp('ge', ahi, ONE) if kind == 1 else f_cmp('eq', ahi, ONE))
                continue
            if kind == 1:
                # reported as binary without a BV bound: only an integer column whose range is exactly [0,1] has the same value domain
                conj += [d['integer'], elo.tag == 'fin' and f_cmp('eq', elo, ZERO), ehi.tag == 'fin' and f_cmp('eq', ehi, ONE),
                         f_cmp('le', alo, ZERO) if alo.tag != 'nan' else False, f_cmp('ge', ahi, ONE) if ahi.tag != 'nan' else False]
                continue
            if d['open_if_neg'] is not None:
                neg = f_cmp('lt', d['open_if_neg'], ZERO)
                conj.append(z3.If(z3bool(neg), z3.BoolVal(alo.tag == 'ninf'), z3bool(alo.tag == 'fin' and f_cmp('eq', alo, ZERO))))
            else:
                conj.append(feq(alo, elo) if kind != 1 else True)
            conj.append(feq(ahi, ehi) if kind != 1 else f_cmp('ge', ahi, ONE) if ehi.tag != 'fin' else True)
        # objective
        def canon_by_name(fval):
            out = {}
            for ids, c in (read_monos(chk, fval)[0] if fval is not None else []):
                names = tuple(sorted(n for i in ids for n, j in idof.items() if j == i))
                if len(names) != len(ids):
                    names = ('?',)
                out[names] = r_add(out.get(names, Fraction(0)), c.r)
            return out
        obj = canon_by_name(inst['objective'])
        eobj = {}
        for c in model['cols']:
            for r, t in c['entries']:
                if r == model['objname']:
                    eobj[(c['name'],)] = r_add(eobj.get((c['name'],), Fraction(0)), vals[t].r)
        for r, t in model['rhs']:
            if r == model['objname']:
                eobj[()] = r_neg(vals[t].r)
        for k in set(obj) | set(eobj):
            conj.append(r_cmp('eq', obj.get(k, Fraction(0)), eobj.get(k, Fraction(0))))
        # constraints: per E/L/G row; ranged rows give two constraints
        cons = {c['name']: c for c in inst['cons']}
        rng = dict(model['ranges'])
        rhs = dict(model['rhs'])
        nexp = 0
        for row in model['rows']:
            if row['type'] == 'N':
                continue
            a = {}
            for c in model['cols']:
                for r, t in c['entries']:
                    if r == row['name']:
                        a[(c['name'],)] = r_add(a.get((c['name'],), Fraction(0)), vals[t].r)
            b = vals[rhs[row['name']]].r if row['name'] in rhs else Fraction(0)

            def le_form(sign, bound):
                """sign*(a.x) - sign*bound <= 0 as canonical dict"""
                out = {k: (v if sign > 0 else r_neg(v)) for k, v in a.items()}
                out[()] = r_neg(bound) if sign > 0 else bound
                return out

            def same(actual, want, eq):
                if actual is None:
                    return False
                got = canon_by_name(actual['function'])
                return b_and(scalar_eq(actual['equality'], eq), *[r_cmp('eq', got.get(k, Fraction(0)), want.get(k, Fraction(0))) for k in set(got) | set(want)])
            if row['name'] not in rng:
                nexp += 1
                act = cons.get(row['name'])
                if row['type'] == 'E':
                    conj.append(same(act, le_form(1, b), 1))
                elif row['type'] == 'L':
                    conj.append(same(act, le_form(1, b), 2))
                else:
                    conj.append(same(act, le_form(-1, b), 2))
            else:
                nexp += 2
                r_ = vals[rng[row['name']]].r
                absr = z3.If(z3real(r_) >= 0, z3real(r_), -z3real(r_))
                if row['type'] == 'G':
                    lo_b, hi_b = b, r_add(b, absr)
                elif row['type'] == 'L':
                    lo_b, hi_b = r_sub(b, absr), b
                else:
                    lo_b = z3.If(z3real(r_) > 0, z3real(b), z3real(b) - absr)
                    hi_b = z3.If(z3real(r_) > 0, z3real(b) + absr, z3real(b))
                lower, upper = le_form(-1, lo_b), le_form(1, hi_b)
                names = [n for n in cons if n == row['name'] or n.rstrip('_') == row['name'] and n != row['name']]
                if len(names) != 2:
                    conj.append(False)
                else:
                    c1, c2 = cons[names[0]], cons[names[1]]
                    conj.append(b_or(b_and(same(c1, lower, 2), same(c2, upper, 2)), b_and(same(c2, lower, 2), same(c1, upper, 2))))
        conj.append(len(inst['cons']) == nexp)
        P.require('instance-matches-file', b_and(*conj), witness, role)

    def mk(variant, layout):
        def h(P):
            model, vals = mk_model(P, variant)
            lines = render(model, layout)

            def witness(mdl):
                text = []
                for ln in lines:
                    for k, v in vals.items():
                        if k in ln:
                            from mirsym.models import rust_f64_display
                            ln = ln.replace(k, rust_f64_display(valconv.fv_to_float(v, mdl)))
                    text.append(ln)
                case = {'op': 'mps_load', 'text': '\n'.join(text) + '\n'}
                want = concrete_expected(model, {k: valconv.fv_to_fraction(v, mdl) for k, v in vals.items()})

                def judge(res):
                    if 'ok' not in res:
                        return True
                    return not concrete_matches(chk.unhex(res['ok']['instance'], MSGI), want)
                return case, judge, 'MPS text:\n' + '\n'.join(text)

            def role(mdl):
                for c in model['cols']:
                    if any(bt == 'FR' for bt, _ in c['bounds']):
                        return 'FR-bound-ignored'
                if model['objname'] != 'OBJ' and any(r == model['objname'] for r, _ in model['rhs']):
                    return 'objective-constant-only-read-from-row-named-OBJ'
                return None
            try:
                res = run_import(P, lines)
            except RustPanic:
                P.fail('no-panic', witness, role)
                return
            check_instance(P, model, vals, res, witness, role)
        return h

    LAYOUTS = [{'objsense_inline': True}, {'five': True, 'comments': True, 'blank': True}]
    for variant in ('bounds', 'rows', 'ranges', 'objective', 'sparse', 'kinds', 'names') + (('wide',) if chk.tier == 'thorough' else ()):
        for li, layout in enumerate(LAYOUTS):
            if chk.tier == 'quick' and li == 1 and variant in ('bounds', 'sparse', 'kinds'):
                continue
            chk.harness(f'import:{variant}/layout{li}', mk(variant, layout), max_paths=60000)

    # fault injection: each fault must be reported as an error (never a panic, never silently accepted)
    FAULTS = ['col-undeclared-row', 'rhs-undeclared-row', 'range-undeclared-row', 'bad-row-type', 'bad-bound-type', 'bad-marker', 'bad-sense', 'bad-number']

    def mk_fault(fault):
        def h(P):
            model, vals = mk_model(P, 'ranges' if fault == 'range-undeclared-row' else 'plain')
            if fault == 'col-undeclared-row':
                model['cols'][0]['entries'].append(('NOROW', '1.5'))
            elif fault == 'rhs-undeclared-row':
                model['rhs'].append(('NOROW', '2'))
            elif fault == 'range-undeclared-row':
                model['ranges'].append(('NOROW', '2'))
            elif fault == 'bad-row-type':
                model['rows'][1]['type'] = 'X'
            elif fault == 'bad-bound-type':
                model['cols'][0]['bounds'] = [('XX', '1')]
            elif fault == 'bad-marker':
                model['cols'][1]['integer'] = True
                model['intorg'] = "'INTBEGIN'"
            elif fault == 'bad-sense':
                model['sense'] = 'MAXIMUM'
            elif fault == 'bad-number':
                model['cols'][0]['entries'][0] = (model['cols'][0]['entries'][0][0], '1.2.3')
            lines = render(model, {'objsense_inline': bool(P.choose(2))})

            def witness(mdl):
                text = []
                for ln in lines:
                    for k, v in vals.items():
                        if k in ln:
                            from mirsym.models import rust_f64_display
                            ln = ln.replace(k, rust_f64_display(valconv.fv_to_float(v, mdl)))
                    text.append(ln)
                return {'op': 'mps_load', 'text': '\n'.join(text) + '\n'}, (lambda res: 'err' not in res), f'fault {fault}:\n' + '\n'.join(text)
            try:
                res = run_import(P, lines)
            except RustPanic:
                P.fail('fault-reported-not-panic', witness, role=fault)
                return
            P.require('fault-reported-as-error', res.vname != 'Ok', witness, role=fault)
        return h
    for f in FAULTS:
        chk.harness(f'fault:{f}', mk_fault(f))
    chk.validation('mps import', lambda c: validate(c, run_import_conc(chk, from_lines, convert)))


def run_import_conc(chk, from_lines, convert):
    def f(it, lines):
        from mirsym.models import list_iter
        r = it.run_body(from_lines, [list_iter([RString(x) for x in lines])])
        if r.vname != 'Ok':
            return None
        r2 = it.run_body(convert, [r.f[0]])
        return None if r2.vname != 'Ok' else chk.conv.to_dict(r2.f[0], MSGI)
    return f


# ----------------------------------------------------------------------------- concrete oracle (for the replay judge)

def concrete_expected(model, vals):
    """vals: token -> Fraction. returns dict: sense, vars{name:(integer, lo, hi, binary, open_if_neg)}, objective{names:coef}, constraints list"""
    import math
    out = {'sense': 2 if model['sense'] == 'MAX' else 1, 'vars': {}, 'cons': []}
    V = {k: (v if isinstance(v, Fraction) else v) for k, v in vals.items()}
    for c in model['cols']:
        d = expected_domain(c, {k: FV('fin', v) if isinstance(v, Fraction) else v for k, v in V.items()})
        lo = d['lo']
        if d['open_if_neg'] is not None and d['open_if_neg'].r < 0:
            lo = NINF
        out['vars'][c['name']] = (d['integer'], lo, d['hi'], d['binary'])
    obj = {}
    for c in model['cols']:
        for r, t in c['entries']:
            if r == model['objname']:
                obj[(c['name'],)] = obj.get((c['name'],), 0) + (V[t] if t in V else Fraction(t))
    for r, t in model['rhs']:
        if r == model['objname']:
            obj[()] = -(V[t] if t in V else Fraction(t))
    out['objective'] = {k: v for k, v in obj.items() if v != 0}
    rng, rhs = dict(model['ranges']), dict(model['rhs'])
    for row in model['rows']:
        if row['type'] == 'N':
            continue
        a = {}
        for c in model['cols']:
            for r, t in c['entries']:
                if r == row['name']:
                    a[(c['name'],)] = a.get((c['name'],), 0) + V[t]
        b = V[rhs[row['name']]] if row['name'] in rhs else Fraction(0)

        def form(sign, bound, eq):
            d = {k: sign * v for k, v in a.items()}
            d[()] = -sign * bound
            return (eq, {k: v for k, v in d.items() if v != 0})
        if row['name'] not in rng:
            out['cons'].append(form(1, b, 1) if row['type'] == 'E' else form(1, b, 2) if row['type'] == 'L' else form(-1, b, 2))
        else:
            r_ = V[rng[row['name']]]
            if row['type'] == 'G':
                lo_b, hi_b = b, b + abs(r_)
            elif row['type'] == 'L':
                lo_b, hi_b = b - abs(r_), b
            else:
                lo_b, hi_b = (b, b + abs(r_)) if r_ > 0 else (b - abs(r_), b)
            out['cons'] += [form(-1, lo_b, 2), form(1, hi_b, 2)]
    return out


def concrete_matches(inst, want):
    import math
    byname = {v['name']: v for v in inst['decision_variables']}
    if sorted(byname) != sorted(want['vars']) or inst['sense'] != want['sense']:
        return False
    idn = {v['id']: n for n, v in byname.items()}
    for n, (integer, lo, hi, binary) in want['vars'].items():
        v = byname[n]
        if (v['kind'] in (1, 2)) != integer or v['bound'] is None:
            return False
        alo, ahi = v['bound']['lower'], v['bound']['upper']
        if binary or v['kind'] == 1:
            if not (alo <= 0 and ahi >= 1) or (v['kind'] == 2 and ahi != 1):
                return False
            continue
        elo = -math.inf if lo.tag == 'ninf' else float(lo.r)
        ehi = math.inf if hi.tag == 'pinf' else float(hi.r)
        if not (close(alo, elo) if math.isfinite(elo) else alo == elo) or not (close(ahi, ehi) if math.isfinite(ehi) else ahi == ehi):
            return False

    def canon(f):
        d = {}
        for ids, c in fn_monomials(f):
            k = tuple(sorted(idn.get(i, '?') for i in ids))
            d[k] = d.get(k, 0) + c
        return {k: v for k, v in d.items() if v != 0}

    def same(a, b):
        return all(close(a.get(k, 0), b.get(k, 0)) for k in set(a) | set(b))
    if not same(canon(inst['objective']), want['objective']):
        return False
    got = [(c['equality'], canon(c['function'])) for c in inst['constraints']]
    if len(got) != len(want['cons']):
        return False
    rest = list(got)
    for eq, d in want['cons']:
        hit = [g for g in rest if g[0] == eq and same(g[1], d)]
        if not hit:
            return False
        rest.remove(hit[0])
    return True


def validate(chk, run_conc):
    """translator validation on concrete dyadic files (all layouts, all bound types)"""
    rng = chk.rng
    n = 40 if chk.tier == 'quick' else 300
    for t in range(n):
        def q():
            return str(rng.randint(-12, 12) / 4)
        objname = rng.choice(['OBJ', 'COST'])
        rows = [{'type': 'N', 'name': objname}] + [{'type': rng.choice('ELG'), 'name': f'R{i}'} for i in range(rng.randint(1, 3))]
        cols = []
        for j in range(rng.randint(1, 3)):
            scen = rng.choice(BOUND_SCEN)
            cols.append({'name': f'x{j}', 'integer': rng.random() < .4,
                         'entries': [(r['name'], q()) for r in rows if rng.random() < .8],
                         'bounds': [(bt.rstrip('+'), None if bt.rstrip('+') in ('MI', 'PL', 'FR', 'BV') else q()) for bt in scen]})
        model = {'name': 'p', 'sense': rng.choice([None, 'MIN', 'MAX']), 'rows': rows, 'cols': cols,
                 'rhs': [(r['name'], q()) for r in rows if rng.random() < .6],
                 'ranges': [(r['name'], rng.choice(['1.5', '-2', '0.25'])) for r in rows[1:] if rng.random() < .3], 'objname': objname}
        lines = render(model, {'five': rng.random() < .5, 'comments': rng.random() < .5, 'blank': rng.random() < .5, 'objsense_inline': rng.random() < .5})
        case = {'op': 'mps_load', 'text': '\n'.join(lines) + '\n'}

        def norm(d):
            if d is None:
                return 'err'
            idn = {v['id']: v['name'] for v in d['decision_variables']}

            def canon(f):
                o = {}
                for ids, c in fn_monomials(f):
                    k = tuple(sorted(idn.get(i, '?') for i in ids))
                    o[k] = o.get(k, 0) + float(c)
                return sorted((k, v) for k, v in o.items() if v != 0)
            return (d['sense'], sorted((v['name'], v['kind'], v['bound']['lower'], v['bound']['upper']) for v in d['decision_variables']), canon(d['objective']),
                    sorted((c['name'], c['equality'], canon(c['function'])) for c in d['constraints']))
        chk.validate('mps import', lambda it, lines=lines: norm(run_conc(it, lines)), case,
                     lambda res: norm(chk.unhex(res['ok']['instance'], MSGI)) if 'ok' in res else 'err')


if __name__ == '__main__':
    main('C17', build)
