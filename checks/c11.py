"""C11 — QUBO/PUBO export reproduces the objective on every binary assignment (engine M)."""
import z3
from fractions import Fraction
from .common import *
from .oracles import *
from .shapes import *
from .instances import *
from .c02 import sym_canon
from .c03 import dom, build_function_choose
from .c10 import slots_of

EPS = Fraction(2.220446049250313e-16)
MSGI = 'ommx.v1.Instance'


def multilinear(canon):
    """reduce a canonical polynomial modulo x_i^2 = x_i: {frozenset ids: coefficient}"""
    out = {}
    for ids, c in canon.items():
        k = tuple(sorted(set(ids)))
        out[k] = r_add(out.get(k, Fraction(0)), c)
    return out


def build(chk):
    eng = chk.eng
    pubo = eng.method('as_pubo_format', first_param='&v1::Instance')
    qubo = eng.method('as_qubo_format', first_param='&v1::Instance')
    B, rd = Build(chk), Rd(chk)
    chk.bounds = {'variables': '3 (ids 0,1,2); the kind of variable 2 ranges over binary/integer/continuous', 'objective': 'constant / linear / quadratic / polynomial with <= 3 monomials, '
                  'degree <= 4, <= 6 id slots, every id assignment over {0,1,2} (explored): repeated ids inside a monomial, x^2 terms and cancelling terms arise',
                  'coefficients': '0 or magnitude in [2^-6, 2^6] (symbolic)', 'assignments': 'all 2^n binary assignments at once: two multilinear polynomials agree on {0,1}^n iff their coefficients agree, '
                  'so the comparison is coefficient-wise after reduction modulo x^2=x', 'sense / constraints': 'both senses, 0 or 1 active constraint'}
    chk.assumptions += ['R-model; coefficients compared up to (n+2)*EPSILON (the export drops accumulated coefficients below EPSILON)',
                        'a monomial with |coefficient| <= EPSILON and more than two distinct variables may or may not cause a QUBO refusal (not required either way)',
                        'the property bounds n <= 12; here n = 3', 'library models trusted and validated natively each run']

    def mk(which, oshape):
        body = pubo if which == 'pubo' else qubo

        def h(P):
            mode = 'signed'
            if oshape is None:
                obj = None
            else:
                obj = build_function_choose(P, oshape, lambda n: dom(P, n, mode))
            kind2 = [1, 2, 3][P.choose(3)]
            sense = [MINIMIZE, MAXIMIZE, 0][P.choose(3)]
            ncons = P.choose(2)
            cons = [Con(5, EQ, (chk.M.function('Constant', ZERO), SymFn([])))] if ncons else []
            spec = Inst(sense=sense, objective=obj, vars=[Var(0, 1), Var(1, 1), Var(2, kind2)], cons=cons,
                        removed=[Rem(Con(6, LE, (chk.M.function('Constant', ONE), SymFn([]))))])
            inst = B.instance(spec)
            sf = obj[1] if obj else SymFn([])

            def witness(model):
                idict = chk.conv.to_dict(B.instance(spec), MSGI, model)
                case = {'op': which, 'instance': chk.hexdict(idict, MSGI)}
                monos = canon_poly(fn_monomials(idict['objective']), drop_zero=False)
                ml = {}
                for ids, c in monos.items():
                    k = tuple(sorted(set(ids)))
                    ml[k] = ml.get(k, 0) + c
                used = fn_ids(idict['objective'])
                kinds = {v['id']: v['kind'] for v in idict['decision_variables']}
                must_refuse = bool(idict['constraints']) or idict['sense'] == 2 or any(kinds.get(i) != 1 for i in used)
                big = [k for k, c in ml.items() if len(k) > 2]
                raw_big = [ids for ids, c in monos.items() if len(set(ids)) > 2 and abs(c) > 1e-15]

                def judge(res):
                    if must_refuse or (which == 'qubo' and raw_big):
                        return 'err' not in res
                    if 'ok' not in res:
                        return not (which == 'qubo' and big)
                    got = {}
                    for k, c in res['ok']['terms']:
                        key = tuple(sorted(set(k)))
                        if c == 0 or list(k) != sorted(set(k)) and which == 'pubo':
                            return True
                        if which == 'qubo' and not (len(k) == 2 and k[0] <= k[1]):
                            return True
                        got[key] = got.get(key, 0) + F(c)
                    if which == 'qubo':
                        got[()] = got.get((), 0) + F(res['ok']['offset'])
                    return any(abs(got.get(k, 0) - ml.get(k, 0)) > 1e-9 * (1 + abs(ml.get(k, 0))) for k in set(got) | set(ml))
                return case, judge, f'{which} of {idict}: multilinear expectation {dict((k, float(v)) for k, v in ml.items())}, must_refuse={must_refuse}'
            try:
                res = P.it.run_body(body, [ref_to(inst)])
            except RustPanic:
                P.fail('no-panic', witness)
                return
            ids = set(sf.ids())
            must_refuse = bool(cons) or sense == MAXIMIZE or (2 in ids and kind2 != 1)
            canon = sym_canon(sf)
            ml = multilinear(canon)
            # terms with > 2 distinct ids and a coefficient that is certainly above EPSILON force a QUBO refusal
            if res.vname != 'Ok':
                P.cover('refused')
                if must_refuse:
                    return P.require('refusal-justified', True)
                if which == 'qubo':
                    big = [c.r for ids_, c in sf.monos if len(set(ids_)) > 2]
                    P.require('refusal-justified', b_or(*[b_not(within(c, Fraction(0), EPS)) for c in big]) if big else False, witness)
                else:
                    P.fail('refusal-justified', witness)
                return
            P.cover('exported')
            if must_refuse:
                P.fail('must-refuse', witness)
                return
            n = len(sf.monos)
            tol = (n + 2) * EPS
            got = {}
            conj = []
            if which == 'pubo':
                for key, c in deref(res.f[0]).entries:
                    kset = [e[0] for e in deref(key.f[0]).entries]
                    conj.append(kset == sorted(set(kset)))
                    conj.append(b_not(f_eq0(c)))
                    got[tuple(kset)] = r_add(got.get(tuple(kset), Fraction(0)), c.r)
            else:
                qmap, off = res.f[0].f
                for key, c in deref(qmap).entries:
                    i, j = key.f
                    conj.append(i <= j)
                    conj.append(b_not(f_eq0(c)))
                    k = (i,) if i == j else (i, j)
                    got[k] = r_add(got.get(k, Fraction(0)), c.r)
                got[()] = r_add(got.get((), Fraction(0)), off.r)
                # a surviving term with more than two distinct variables must have been negligible
                for k in ml:
                    if len(k) > 2:
                        pass
            for k in set(got) | set(ml):
                conj.append(within(got.get(k, Fraction(0)), ml.get(k, Fraction(0)), tol))
            P.require('reproduces-objective', b_and(*conj), witness)
        return h

    shapes = [None, ('constant',), ('linear', 2), ('quadratic', 2, 1), ('polynomial', (2, 2)), ('polynomial', (1, 2, 3)), ('polynomial', (4,)), ('polynomial', (0, 1, 2)), ('polynomial', (3, 3)),
              ('polynomial', (0, 2, 0))]       # two constant monomials: un-merged representations are legal messages
    if chk.tier == 'thorough':
        shapes += [('quadratic', 3, None), ('polynomial', (2, 4)), ('polynomial', (1, 1, 4)), ('polynomial', (2, 2, 2))]
    for which in ('pubo', 'qubo'):
        for sh in shapes:
            chk.harness(f'{which}:{sh}', mk(which, sh), regions=['refused', 'exported'])
    chk.validation('pubo/qubo', lambda c: validate(c, pubo, qubo))


def f_eq0(c):
    from mirsym.interp import f_cmp
    return f_cmp('eq', c, ZERO)


def validate(chk, pubo, qubo):
    from .c01 import random_function_dict
    rng = chk.rng
    n = 60 if chk.tier == 'quick' else 400
    shapes = [('constant',), ('linear', 3), ('quadratic', 3, 2), ('polynomial', (2, 2, 1)), ('polynomial', (1, 2, 3)), ('polynomial', (4, 0))]
    for t in range(n):
        which = rng.choice(['pubo', 'qubo'])
        fd = random_function_dict(rng, rng.choice(shapes), idmax=2, K=8, shift=2)
        inst = {'description': None, 'decision_variables': [{'id': i, 'kind': 1 if (i < 2 or rng.random() < .8) else 2, 'bound': None, 'name': None, 'subscripts': [],
                                                             'parameters': [], 'description': None, 'substituted_value': None} for i in range(3)],
                'objective': fd, 'constraints': [], 'sense': rng.choice([1, 1, 1, 2]), 'parameters': None, 'constraint_hints': None, 'removed_constraints': [],
                'decision_variable_dependency': []}
        case = {'op': which, 'instance': chk.hexdict(inst, MSGI)}
        iv = chk.conv.from_dict(inst, MSGI)

        def py(it, iv=iv, which=which):
            r = it.run_body(pubo if which == 'pubo' else qubo, [ref_to(iv)])
            if r.vname != 'Ok':
                return 'err'
            if which == 'pubo':
                return sorted((tuple(e[0] for e in deref(k.f[0]).entries), float(c.r)) for k, c in deref(r.f[0]).entries)
            qm, off = r.f[0].f
            return (sorted(((k.f[0], k.f[1]), float(c.r)) for k, c in deref(qm).entries), float(off.r))

        def nat(res):
            if 'ok' not in res:
                return 'err'
            if which == 'pubo':
                return sorted((tuple(k), float(c)) for k, c in res['ok']['terms'])
            return (sorted(((k[0], k[1]), float(c)) for k, c in res['ok']['terms']), float(res['ok']['offset']))
        chk.validate(which, py, case, nat)


if __name__ == '__main__':
    main('C11', build)
