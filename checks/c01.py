"""C01 — evaluating a function returns the polynomial's mathematical value (engine M)."""
import z3
from fractions import Fraction
from .common import *
from .oracles import *
from .shapes import *

MSG = 'ommx.v1.Function'


def build(chk):
    eng = chk.eng
    ev = eng.method('evaluate', first_param='&v1::Function')
    shapes = function_shapes(chk.tier)
    chk.bounds = {'terms/entries/monomials': '<= 3', 'degree': '<= 4', 'ids': 'symbolic 64-bit in {0..3} with state keys {0,1,2} each present/absent (id 3 never present); for messages with more than 5 id slots: ids in {0..2}, keys {0,1}',
                  'coefficients/values': 'unconstrained reals (R-model, finite)', 'shapes': len(shapes)}
    chk.assumptions += [
        'R-model: f64 arithmetic is exact real arithmetic on finite values (rounding, overflow to inf, subnormals not modelled)',
        'bit-exact claim for dyadic inputs follows from the R-model verdict: with coefficients and values in {k/4 : |k|<=16}, degree<=4 and <=4 '
        'summands every intermediate has < 2^53 numerator and exponent in [-10,12], so every IEEE operation on the path is exact '
        '(certificate computed below; translator validation runs exactly such inputs against the native build)',
        'library models (Vec, HashMap, BTreeSet, iterators, anyhow, Option/Result) are trusted; validated per run against the native crate',
        'quadratic rows/columns/values of unequal length are outside the claim (not wire-legal)',
    ]
    # dyadic certificate (static): bits needed by the largest intermediate
    kbits, fbits, deg, nsum = 5, 2, 4, 4
    need = (kbits + fbits) * (deg + 1) + nsum.bit_length()
    assert need < 53, need
    chk.bounds['dyadic_certificate_bits'] = need

    def mk_harness(shape, NV):
        def h(P):
            ctx, it = P.ctx, P.it
            fval, sf = build_function(P, shape, 'f', NV)
            pres = [P.choose(2) for _ in range(NV)]
            xs = [P.real(f'x{k}') for k in range(NV)]
            keys = [k for k in range(NV) if pres[k]]
            st = chk.M.state([(k, xs[k]) for k in keys])
            ids = sf.ids()
            allpresent = b_and(*[in_set(i, keys) for i in ids])
            P.cover('all-present', allpresent)
            if ids:
                P.cover('some-missing', b_not(allpresent))
            if len(ids) >= 2:
                P.cover('repeated-id', b_or(*[ids[a] == ids[b] for a in range(len(ids)) for b in range(a + 1, len(ids))]))

            def witness(model):
                fd = chk.conv.to_dict(fval, MSG, model)
                sd = chk.conv.to_dict(st, 'ommx.v1.State', model)
                case = {'op': 'evaluate_function', 'f': chk.hexdict(fd, MSG), 'state': chk.hexdict(sd, 'ommx.v1.State')}
                want = fn_eval(fd, state_assign(sd))
                wids = sorted(fn_ids(fd))

                def judge(res):
                    if want is None:
                        return 'err' not in res
                    if 'ok' not in res:
                        return True
                    return not close(res['ok']['value'], want) or sorted(res['ok']['used']) != wids
                return case, judge, f'evaluate({fd}) at {sd}: expected {"Err" if want is None else float(want)} used={wids}'
            try:
                res = it.run_body(ev, [ref_to(fval), ref_to(st)])
            except RustPanic as e:
                P.fail('no-panic', witness)
                return
            if res.vname == 'Ok':
                val, used = res.f[0].f
                lookup = ite_lookup(keys, [x.r for x in xs if True][:0] or [xs[k].r for k in keys])
                want = sf.denote(lookup)
                usedl = [e[0] for e in deref(used).entries]
                q = b_and(allpresent, val.tag == 'fin' and r_cmp('eq', val.r, want), set_eq(usedl, ids))
                P.require('ok-value-and-used', q, witness)
            else:
                P.require('err-iff-missing', b_not(allpresent), witness)
        return h

    for shape in shapes:
        regions = ['all-present']
        nids = {'none': 0, 'constant': 0}.get(shape[0])
        if shape[0] == 'linear':
            nids = shape[1]
        elif shape[0] == 'quadratic':
            nids = 2 * shape[1] + (shape[2] or 0)
        elif shape[0] == 'polynomial':
            nids = sum(shape[1])
        if nids:
            regions.append('some-missing')
        if nids >= 2:
            regions.append('repeated-id')
        nv = 3 if (nids or 0) <= 5 else 2
        chk.harness('evaluate:' + '/'.join(map(str, shape)), mk_harness(shape, nv), regions=regions,
                    bounds={'shape': list(map(str, shape)), 'state_keys': nv, 'id_domain': f'0..{nv}'})

    # one shape with ids near 2^63 / 2^64 (concrete huge ids)
    big = [(1 << 63), (1 << 64) - 1, (1 << 63) + 1]

    def hbig(P):
        fval, sf = build_function(P, ('polynomial', (1, 2)), 'f', None, ids_concrete=big)
        xs = [P.real(f'x{k}') for k in range(3)]
        st = chk.M.state(list(zip(big, xs)))
        res = P.it.run_body(ev, [ref_to(fval), ref_to(st)])
        want = sf.denote(ite_lookup(big, [x.r for x in xs]))
        P.require('big-ids', res.vname == 'Ok' and r_cmp('eq', res.f[0].f[0].r, want))
    chk.harness('evaluate:big-ids', hbig)

    chk.validation('Function::evaluate', lambda c: validate(c, ev))


def validate(chk, ev):
    """translator validation: interpreter (concrete) vs native on dyadic inputs"""
    rng = chk.rng
    n = 60 if chk.tier == 'quick' else 600
    shapes = function_shapes('thorough')
    for t in range(n):
        shape = rng.choice(shapes)
        fd = random_function_dict(rng, shape)
        sd = {'entries': [(k, rng.randint(-16, 16) / 4) for k in range(4) if rng.random() < 0.8]}
        case = {'op': 'evaluate_function', 'f': chk.hexdict(fd, MSG), 'state': chk.hexdict(sd, 'ommx.v1.State')}
        fval = chk.conv.from_dict(fd, MSG)
        st = chk.conv.from_dict(sd, 'ommx.v1.State')

        def py(it):
            r = it.run_body(ev, [ref_to(fval), ref_to(st)])
            if r.vname == 'Err':
                return 'err'
            v, used = r.f[0].f
            return (float(v.r), sorted(e[0] for e in deref(used).entries))

        def nat(res):
            if 'err' in res:
                return 'err'
            return (float(res['ok']['value']), sorted(res['ok']['used']))
        chk.validate('Function::evaluate', py, case, nat)
        if t < 3:
            chk.samples.append({'validation_case': {'function': str(fd), 'state': str(sd)}})


def random_function_dict(rng, shape, idmax=3, K=16, shift=2):
    def c():
        return rng.randint(-K, K) / (1 << shift)

    def i():
        return rng.randint(0, idmax)

    def lin(n):
        return {'terms': [{'id': i(), 'coefficient': c()} for _ in range(n)], 'constant': c()}
    k = shape[0]
    if k == 'none':
        return {'function': None}
    if k == 'constant':
        return {'function': ('constant', c())}
    if k == 'linear':
        return {'function': ('linear', lin(shape[1]))}
    if k == 'quadratic':
        n = shape[1]
        return {'function': ('quadratic', {'rows': [i() for _ in range(n)], 'columns': [i() for _ in range(n)],
                                           'values': [c() for _ in range(n)], 'linear': None if shape[2] is None else lin(shape[2])})}
    return {'function': ('polynomial', {'terms': [{'ids': [i() for _ in range(d)], 'coefficient': c()} for d in shape[1]]})}


if __name__ == '__main__':
    main('C01', build)
