"""Builders for ommx.v1.Instance values from python specs with symbolic leaves, and readers for results."""
from fractions import Fraction
import z3
from mirsym.values import *
from mirsym.models import deref
from .oracles import SymFn, in_set

KIND = {'unspecified': 0, 'binary': 1, 'integer': 2, 'continuous': 3, 'semi_integer': 4, 'semi_continuous': 5}
EQ, LE = 1, 2
MINIMIZE, MAXIMIZE = 1, 2


class Var:
    def __init__(self, id, kind=3, bound=None, sub=None, name=None):
        self.id, self.kind, self.bound, self.sub, self.name = id, kind, bound, sub, name


class Con:
    def __init__(self, id, eq, fn=None, name=None, subscripts=(), params=(), desc=None):
        # fn: (value, SymFn) or None (absent function)
        self.id, self.eq, self.fn, self.name, self.subscripts, self.params, self.desc = id, eq, fn, name, list(subscripts), list(params), desc


class Rem:
    def __init__(self, con, reason='why', params=()):
        self.con, self.reason, self.params = con, reason, list(params)


class Inst:
    def __init__(self, sense=MINIMIZE, objective=None, vars=(), cons=(), removed=(), deps=(), hints=None, description=None):
        self.sense, self.objective = sense, objective
        self.vars, self.cons, self.removed = list(vars), list(cons), list(removed)
        self.deps = list(deps)      # [(id, (value, SymFn))]
        self.hints, self.description = hints, description


def ostr(s):
    return NONE() if s is None else Some(RString(s))


def strmap(pairs):
    return RMap('hash', False, [[RString(k), RString(v)] for k, v in pairs])


class Build:
    def __init__(self, chk):
        self.chk, self.e = chk, chk.eng

    def var(self, v):
        b = NONE() if v.bound is None else Some(self.e.struct('v1::Bound', lower=v.bound[0], upper=v.bound[1]))
        return self.e.struct('v1::DecisionVariable', id=v.id, kind=v.kind, bound=b, name=ostr(v.name), subscripts=RVec([]),
                             parameters=strmap([]), description=NONE(), substituted_value=NONE() if v.sub is None else Some(v.sub))

    def con(self, c):
        from mirsym.interp import deep_clone
        f = NONE() if c.fn is None else Some(deep_clone(c.fn[0]))
        return self.e.struct('v1::Constraint', id=c.id, equality=c.eq, function=f, subscripts=RVec(list(c.subscripts)),
                             parameters=strmap(c.params), name=ostr(c.name), description=ostr(c.desc))

    def rem(self, r):
        return self.e.struct('v1::RemovedConstraint', constraint=NONE() if r.con is None else Some(self.con(r.con)),
                             removed_reason=RString(r.reason), removed_reason_parameters=strmap(r.params))

    def instance(self, s):
        from mirsym.interp import deep_clone
        return self.e.struct(
            'v1::Instance', description=NONE(), decision_variables=RVec([self.var(v) for v in s.vars]),
            objective=NONE() if s.objective is None else Some(deep_clone(s.objective[0])),
            constraints=RVec([self.con(c) for c in s.cons]), sense=s.sense, parameters=NONE(),
            constraint_hints=NONE() if s.hints is None else Some(s.hints),
            removed_constraints=RVec([self.rem(r) for r in s.removed]),
            decision_variable_dependency=RMap('hash', False, [[i, deep_clone(f[0])] for i, f in s.deps]))

    def state(self, entries):
        return self.chk.M.state(entries)


# ----------------------------------------------------------------------------- readers

class Rd:
    def __init__(self, chk):
        self.e = chk.eng

    def f(self, v, full, name):
        return self.e.field(v, full, name)

    def opt(self, o):
        o = deref(o)
        return None if o.discr == 0 else o.f[0]

    def s(self, x):
        x = deref(x)
        return x.s if isinstance(x, RString) else x

    def ostr(self, o):
        v = self.opt(o)
        return None if v is None else self.s(v)

    def strmap(self, m):
        return sorted((self.s(k), self.s(v)) for k, v in deref(m).entries)

    def solution(self, sol):
        F = lambda n: self.f(sol, 'v1::Solution', n)
        st = self.opt(F('state'))
        return {
            'state': None if st is None else [(e[0], e[1]) for e in deref(self.f(st, 'v1::State', 'entries')).entries],
            'objective': F('objective'),
            'decision_variables': list(deref(F('decision_variables')).items),
            'evaluated_constraints': [self.evaluated_constraint(c) for c in deref(F('evaluated_constraints')).items],
            'feasible': F('feasible'), 'feasible_relaxed': self.opt(F('feasible_relaxed')),
            'feasible_unrelaxed': F('feasible_unrelaxed'), 'optimality': F('optimality'), 'relaxation': F('relaxation'),
        }

    def evaluated_constraint(self, c):
        F = lambda n: self.f(c, 'v1::EvaluatedConstraint', n)
        return {'id': F('id'), 'equality': F('equality'), 'value': F('evaluated_value'),
                'used': list(deref(F('used_decision_variable_ids')).items), 'subscripts': list(deref(F('subscripts')).items),
                'parameters': self.strmap(F('parameters')), 'name': self.ostr(F('name')), 'description': self.ostr(F('description')),
                'dual': self.opt(F('dual_variable')), 'removed_reason': self.ostr(F('removed_reason')),
                'removed_reason_parameters': self.strmap(F('removed_reason_parameters'))}

    def var(self, v):
        F = lambda n: self.f(v, 'v1::DecisionVariable', n)
        b = self.opt(F('bound'))
        return {'id': F('id'), 'kind': F('kind'), 'bound': None if b is None else (self.f(b, 'v1::Bound', 'lower'), self.f(b, 'v1::Bound', 'upper')),
                'sub': self.opt(F('substituted_value')), 'name': self.ostr(F('name'))}

    def constraint(self, c):
        F = lambda n: self.f(c, 'v1::Constraint', n)
        return {'id': F('id'), 'equality': F('equality'), 'function': self.opt(F('function')), 'subscripts': list(deref(F('subscripts')).items),
                'parameters': self.strmap(F('parameters')), 'name': self.ostr(F('name')), 'description': self.ostr(F('description'))}

    def removed(self, r):
        F = lambda n: self.f(r, 'v1::RemovedConstraint', n)
        c = self.opt(F('constraint'))
        return {'constraint': None if c is None else self.constraint(c), 'reason': self.s(F('removed_reason')),
                'params': self.strmap(F('removed_reason_parameters'))}

    def instance(self, i, full='v1::Instance'):
        F = lambda n: self.f(i, full, n)
        d = {'sense': F('sense'), 'objective': self.opt(F('objective')),
             'vars': [self.var(v) for v in deref(F('decision_variables')).items],
             'cons': [self.constraint(c) for c in deref(F('constraints')).items],
             'removed': [self.removed(r) for r in deref(F('removed_constraints')).items],
             'deps': [(e[0], e[1]) for e in deref(F('decision_variable_dependency')).entries],
             'hints': self.opt(F('constraint_hints')), 'description': self.opt(F('description'))}
        if full == 'v1::ParametricInstance':
            d['parameters'] = list(deref(F('parameters')).items)
        else:
            d['parameters'] = self.opt(F('parameters'))
        return d


def feq(a, b):
    """equality of two FV values as bool | z3 Bool (tags must agree)"""
    from mirsym.interp import f_cmp
    if a.tag != b.tag:
        return False
    if a.tag != 'fin':
        return a.tag != 'nan'
    return f_cmp('eq', a, b)
