"""C06 — sample-set evaluation agrees with evaluating each sample alone (engine M)."""
import z3
from fractions import Fraction
from .common import *
from .oracles import *
from .instances import *
from . import c05
from .c15 import partitions
from mirsym.interp import deep_clone, f_cmp

MSGI, MSGS, MSGSM = 'ommx.v1.Instance', 'ommx.v1.State', 'ommx.v1.Samples'
SAMPLE_IDS = [4, 0, 9, 2]


def build(chk):
    eng = chk.eng
    evs = eng.method('evaluate_samples', first_param='&v1::Instance')
    ev_i = eng.method('evaluate', first_param='&v1::Instance')
    get = eng.method('get', first_param='&SampleSet')
    sample_ids = eng.method('sample_ids', first_param='&SampleSet')
    num_samples = eng.method('num_samples', first_param='&SampleSet')
    B, rd = Build(chk), Rd(chk)
    NMAX = 2 if chk.tier == 'quick' else 3
    chk.bounds = {'instance': 'variables 1 (used), 2 (used, bounded), 5 (irrelevant, bounded) [+ 6 fixed by substituted_value, + dependent 7]; linear objective; 1 active + 1 removed constraint',
                  'samples': f'1..{NMAX} sample ids (the property quantifies to 8), every partition of the ids into entries, plus 4 ids in 4 separate entries, symbolic state values (equal states / equal values are solver cases), '
                  'the irrelevant variable present or omitted per entry'}
    chk.assumptions += ['R-model', 'in-bound states (evaluate rejects out-of-bound states, evaluate_samples does not check bounds: outside this property)',
                        'library models trusted and validated natively each run']

    def lin(P, pre, ids):
        terms = [(i, P.real(f'{pre}_a{n}')) for n, i in enumerate(ids)]
        k = P.real(f'{pre}_k')
        return chk.M.function('Linear', chk.M.linear(terms, k)), SymFn([([i], c) for i, c in terms] + [([], k)])

    def mk(n, variant, part_idx=None):
        ids = SAMPLE_IDS[:n]
        parts = list(partitions(ids))

        def h(P):
            part = parts[P.choose(len(parts))] if part_idx is None else parts[part_idx]
            lo2, hi2 = P.real('lo2'), P.real('hi2')
            lo5 = P.real('lo5')
            vars_ = [Var(1, 3), Var(2, 2, (lo2, hi2)), Var(5, 3, (lo5, PINF))]
            deps = []
            if variant == 'fixed+dependent':
                vars_ += [Var(6, 3, sub=P.real('s6')), Var(7, 3)]
                deps = [(7, lin(P, 'd', [1, 6]))]
            spec = Inst(sense=MAXIMIZE, objective=lin(P, 'o', [1, 2]), vars=vars_,
                        cons=[Con(11, EQ if P.choose(2) else LE, lin(P, 'g', [1]), name='c11', subscripts=[3], params=[('k', 'v')])],
                        removed=[Rem(Con(12, LE, lin(P, 'r', [2]), desc='d12'), reason='why', params=[('p', 'q')])], deps=deps)
            inst = B.instance(spec)
            states = []
            for e, grp in enumerate(part):
                x1, x2 = P.real(f'x1_{e}'), P.real(f'x2_{e}')
                P.ctx.assume(z3.And(lo2.r <= x2.r, x2.r <= hi2.r))
                st = [(1, x1), (2, x2)]
                if variant != 'omit-irrelevant' or P.choose(2):
                    x5 = P.real(f'x5_{e}')
                    P.ctx.assume(lo5.r <= x5.r)
                    st.append((5, x5))
                else:
                    P.cover('irrelevant-variable-omitted')
                states.append(st)
            samples = eng.struct('v1::Samples', entries=RVec([eng.struct('v1::samples::SamplesEntry', state=Some(B.state(st)), ids=RVec(list(grp)))
                                                             for st, grp in zip(states, part)]))
            state_of = {i: st for st, grp in zip(states, part) for i in grp}

            def witness(model):
                idict = chk.conv.to_dict(B.instance(spec), MSGI, model)
                smd = {'entries': [{'state': {'entries': [(k, valconv.fv_to_float(v, model)) for k, v in st]}, 'ids': list(grp)} for st, grp in zip(states, part)]}
                case = {'op': 'evaluate_samples', 'instance': chk.hexdict(idict, MSGI), 'samples': chk.hexdict(smd, MSGSM), 'get': ids}
                exps = {i: c05.concrete_expected(idict, [e for e in smd['entries'] if i in e['ids']][0]['state']) for i in ids}

                def judge(res):
                    if 'ok' not in res:
                        return any(e is not None for e in exps.values())
                    ss = chk.unhex(res['ok']['sample_set'], 'ommx.v1.SampleSet')
                    if sorted(k for k, _ in ss['feasible']) != sorted(ids) or sorted(k for k, _ in ss['feasible_relaxed']) != sorted(ids):
                        return True
                    if sorted(res['ok'].get('sample_ids', ids)) != sorted(ids) or res['ok'].get('num_samples', {'ok': len(ids)}) != {'ok': len(ids)}:
                        return True
                    for i in ids:
                        g = res['ok']['get'][str(i)]
                        if exps[i] is None:
                            continue
                        if 'ok' not in g:
                            return True
                        if not c05.solution_matches(chk.unhex(g['ok'], 'ommx.v1.Solution'), exps[i]):
                            return True
                    return False
                return case, judge, f'evaluate_samples({idict}, {smd}) vs per-sample evaluate'

            def role(model):
                return 'sample-omits-unused-variable' if any(5 not in dict(st) for st in states) else None
            try:
                res = P.it.run_body(evs, [ref_to(inst), ref_to(samples)])
            except RustPanic:
                P.fail('no-panic', witness, role)
                return
            if res.vname != 'Ok':
                P.fail('evaluate_samples-ok', witness, role)
                return
            ss = res.f[0].f[0]
            F = lambda nme: eng.field(ss, 'v1::SampleSet', nme)
            keys_ok = b_and(sorted(e[0] for e in deref(F('feasible')).entries) == sorted(ids),
                            sorted(e[0] for e in deref(F('feasible_relaxed')).entries) == sorted(ids))
            objs = rd.opt(F('objectives'))
            oids = []
            if objs is not None:
                for ent in deref(eng.field(objs, 'v1::SampledValues', 'entries')).items:
                    oids += list(deref(eng.field(ent, 'v1::sampled_values::SampledValuesEntry', 'ids')).items)
            if not P.require('tables-keyed-by-submitted-ids', b_and(keys_ok, sorted(oids) == sorted(ids)), witness):
                return
            # SampleSet::sample_ids / num_samples report exactly the submitted ids
            try:
                sid = P.it.run_body(sample_ids, [ref_to(ss)])
                nsm = P.it.run_body(num_samples, [ref_to(ss)])
            except RustPanic:
                P.fail('sample_ids-no-panic', witness, role)
                return
            if not P.require('sample_ids-and-num_samples', b_and([e[0] for e in deref(sid).entries] == sorted(ids), nsm.vname == 'Ok' and scalar_eq(nsm.f[0], len(ids))), witness):
                return
            for i in ids:
                exp = c05.expected(spec, state_of[i])
                try:
                    g = P.it.run_body(get, [ref_to(ss), i])
                except RustPanic:
                    P.fail('get-no-panic', witness, role)
                    return
                if g.vname != 'Ok':
                    # per-sample evaluation succeeds (in-bound, complete) so extraction must succeed too
                    P.require('get-ok', b_not(exp['ok']), witness, role)
                    return
                sol = rd.solution(g.f[0])
                conj = [feq(sol['objective'], exp['objective']), len(sol['evaluated_constraints']) == len(exp['cons'])]
                for ec, (c, val, r_) in zip(sol['evaluated_constraints'], exp['cons']):
                    conj += [ec['id'] == c.id, scalar_eq(ec['equality'], c.eq), feq(ec['value'], val), ec['name'] == c.name, ec['description'] == c.desc,
                             ec['subscripts'] == c.subscripts, ec['parameters'] == sorted(c.params), ec['removed_reason'] == (None if r_ is None else r_.reason),
                             ec['removed_reason_parameters'] == ([] if r_ is None else sorted(r_.params))]
                fr = sol['feasible_relaxed']
                conj += [fr is not None and z3bool(fr) == z3bool(exp['feasible_relaxed']), z3bool(sol['feasible']) == z3bool(exp['feasible'])]
                rep = dict(sol['state'] or [])
                conj.append(sorted(rep) == sorted(exp['state']))
                for k, v in exp['state'].items():
                    if k in rep:
                        conj.append(feq(rep[k], v))
                if not P.require('sample-equals-single-evaluation', b_and(*conj), witness, role):
                    return
        return h
    for n in range(1, NMAX + 1):
        for variant in ('plain', 'omit-irrelevant', 'fixed+dependent'):
            regs = ['irrelevant-variable-omitted'] if variant == 'omit-irrelevant' else []
            if n >= 3:
                # one job per partition of the sample ids, so the 16 cores share the work
                for pi in range(len(list(partitions(SAMPLE_IDS[:n])))):
                    chk.harness(f'evaluate_samples:{n}-samples/{variant}/partition{pi}', mk(n, variant, pi), regions=[], hash_order='canonical')
                continue
            chk.harness(f'evaluate_samples:{n}-samples/{variant}', mk(n, variant), regions=regs, hash_order='all' if (n == 1 and variant == 'plain') else 'canonical')
    # four samples stored in four separate entries with symbolic states (two different pairs of equal states, A,A,B,B and the like, are
    # solver cases) on a minimal instance (one variable, objective x1, no constraints), so the value tables have one equality pattern per state pattern
    def h_four(P):
        ids = SAMPLE_IDS[:4]
        spec = Inst(sense=MINIMIZE, objective=(chk.M.function('Linear', chk.M.linear([(1, ONE)], ZERO)), SymFn([([1], ONE)])), vars=[Var(1, 3)], cons=[], removed=[])
        inst = B.instance(spec)
        xs = [P.real(f'x1_{e}') for e in range(4)]
        states = [[(1, x)] for x in xs]
        samples = eng.struct('v1::Samples', entries=RVec([eng.struct('v1::samples::SamplesEntry', state=Some(B.state(st)), ids=RVec([i])) for st, i in zip(states, ids)]))
        P.cover('two-pairs-of-equal-states', z3.And(xs[0].r == xs[1].r, xs[2].r == xs[3].r, xs[0].r != xs[2].r))

        def witness(model):
            idict = chk.conv.to_dict(B.instance(spec), MSGI, model)
            smd = {'entries': [{'state': {'entries': [(k, valconv.fv_to_float(v, model)) for k, v in st]}, 'ids': [i]} for st, i in zip(states, ids)]}
            case = {'op': 'evaluate_samples', 'instance': chk.hexdict(idict, MSGI), 'samples': chk.hexdict(smd, MSGSM), 'get': ids}
            exps = {i: c05.concrete_expected(idict, [e for e in smd['entries'] if i in e['ids']][0]['state']) for i in ids}

            def judge(res):
                if 'ok' not in res:
                    return True
                if sorted(res['ok'].get('sample_ids', ids)) != sorted(ids):
                    return True
                for i in ids:
                    g = res['ok']['get'][str(i)]
                    if 'ok' not in g or not c05.solution_matches(chk.unhex(g['ok'], 'ommx.v1.Solution'), exps[i]):
                        return True
                return False
            return case, judge, f'evaluate_samples({smd}) on a one-variable instance vs per-sample evaluate'
        try:
            res = P.it.run_body(evs, [ref_to(inst), ref_to(samples)])
        except RustPanic:
            P.fail('no-panic', witness)
            return
        if res.vname != 'Ok':
            P.fail('evaluate_samples-ok', witness)
            return
        ss = res.f[0].f[0]
        for i, x in zip(ids, xs):
            try:
                g = P.it.run_body(get, [ref_to(ss), i])
            except RustPanic:
                P.fail('get-no-panic', witness)
                return
            if g.vname != 'Ok':
                P.fail('get-ok', witness)
                return
            sol = rd.solution(g.f[0])
            rep = dict(sol['state'] or [])
            if not P.require('sample-equals-single-evaluation', b_and(feq(sol['objective'], x), sorted(rep) == [1], feq(rep.get(1, x), x)), witness):
                return
    chk.harness('evaluate_samples:4-samples/four-entries/minimal-instance', h_four, regions=['two-pairs-of-equal-states'], hash_order='canonical')
    chk.validation('evaluate_samples', lambda c: validate(c, evs, get))


def validate(chk, evs, get):
    rng = chk.rng
    n = 40 if chk.tier == 'quick' else 300
    for t in range(n):
        inst, _ = c05.rand_instance(rng)
        for v in inst['decision_variables']:
            v['bound'] = None
            v['substituted_value'] = None
        ids = rng.sample(range(10), rng.randint(1, 3))
        part = rng.choice(list(partitions(ids)))
        smd = {'entries': [{'state': {'entries': [(i, rng.randint(-8, 8) / 4) for i in (1, 2, 5)]}, 'ids': g} for g in part]}
        case = {'op': 'evaluate_samples', 'instance': chk.hexdict(inst, MSGI), 'samples': chk.hexdict(smd, MSGSM), 'get': ids}
        iv, sv = chk.conv.from_dict(inst, MSGI), chk.conv.from_dict(smd, MSGSM)

        def py(it, iv=iv, sv=sv, ids=ids):
            r = it.run_body(evs, [ref_to(iv), ref_to(sv)])
            if r.vname != 'Ok':
                return 'err'
            out = {}
            for i in sorted(ids):
                g = it.run_body(get, [ref_to(r.f[0].f[0]), i])
                out[i] = 'err' if g.vname != 'Ok' else c05.norm_solution(chk.conv.to_dict(g.f[0], 'ommx.v1.Solution'))
            return out

        def nat(res, ids=ids):
            if 'ok' not in res:
                return 'err'
            out = {}
            for i in sorted(ids):
                g = res['ok']['get'][str(i)]
                out[i] = 'err' if 'ok' not in g else c05.norm_solution(chk.unhex(g['ok'], 'ommx.v1.Solution'))
            return out
        chk.validate('evaluate_samples+get', py, case, nat)


if __name__ == '__main__':
    main('C06', build)
