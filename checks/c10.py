"""C10 — instantiating parameters equals evaluating them (engine M)."""
import z3
from fractions import Fraction
from .common import *
from .oracles import *
from .shapes import *
from .instances import *
from .c02 import read_monos, sym_canon
from .c03 import dom
from mirsym.interp import deep_clone

EPS = Fraction(2.220446049250313e-16)
MSGI, MSGP, MSGF = 'ommx.v1.Instance', 'ommx.v1.ParametricInstance', 'ommx.v1.Function'
IDSET = [1, 5, 6]     # decision variable 1 (and 2, unused), parameters 5 and 6


def subst_params(canon, pvals):
    out = {}
    for ids, c in canon.items():
        k = tuple(i for i in ids if i not in pvals)
        v = c
        for i in ids:
            if i in pvals:
                v = r_mul(v, pvals[i].r)
        out[k] = r_add(out.get(k, Fraction(0)), v)
    return out


def build(chk):
    eng = chk.eng
    wp = eng.method('with_parameters', first_param='ParametricInstance')
    from_i = eng.find_body(lambda b: b.name.split('::')[-1] == 'from' and b.param_tys == ['v1::Instance'] and norm_ty(b.ret_ty) == 'ParametricInstance')
    B, rd = Build(chk), Rd(chk)
    chk.bounds = {'parametric instance': 'variables 1,2; declared parameters 5 (and 6); objective and <=2 active constraints of degree <=3 with every id assignment from {1,5,6} (explored); '
                  'one removed constraint, hints and a dependency carried along', 'supplied map': 'each declared parameter present/absent, optional unrelated id 77; values symbolic',
                  'coefficients/values': '0 or magnitude in [2^-6, 2^6]'}
    chk.assumptions += ['R-model; coefficient-wise equality up to (n+4)*2^24*EPSILON (epsilon-dropping in partial_evaluate)',
                        'extra supplied ids are unrelated to every decision-variable id (as the property states)', 'library models trusted and validated natively each run']

    def par(i):
        return eng.struct('v1::Parameter', id=i, name=Some(RString(f'p{i}')), subscripts=RVec([]), parameters=strmap([]), description=NONE())

    def pinstance(spec, declared, hints):
        inst = B.instance(spec)
        f = lambda n: eng.field(inst, 'v1::Instance', n)
        return eng.struct('v1::ParametricInstance', description=f('description'), decision_variables=f('decision_variables'),
                          parameters=RVec([par(i) for i in declared]), objective=f('objective'), constraints=f('constraints'), sense=f('sense'),
                          constraint_hints=hints, removed_constraints=f('removed_constraints'), decision_variable_dependency=f('decision_variable_dependency'))

    def mk(oshape, cshapes, ndecl):
        def h(P):
            from .c03 import build_function_choose
            nsl = sum(slots_of(x) for x in ([oshape] if oshape else []) + list(cshapes))
            mode = 'signed' if nsl <= 3 else 'positive'

            def bf(shape, pre):
                newid_backup = P.choose
                fval, sf = build_function_ids(P, shape, pre, IDSET, lambda n: dom(P, n, mode))
                return (fval, sf)
            obj = bf(oshape, 'o') if oshape else None
            cons = [Con(20 + i, EQ if i else LE, bf(cs, f'g{i}'), name=f'c{i}') for i, cs in enumerate(cshapes)]
            rem = [Rem(Con(9, EQ, bf(('linear', 1), 'r')), reason='was')]
            spec = Inst(sense=MAXIMIZE, objective=obj, vars=[Var(1, 3), Var(2, 1)], cons=cons, removed=rem, deps=[(40, bf(('linear', 1), 'd'))])
            declared = [5, 6][:ndecl]
            hints = Some(eng.struct('v1::ConstraintHints', one_hot_constraints=RVec([eng.struct('v1::OneHot', constraint_id=20, decision_variables=RVec([1, 2]))]),
                                    sos1_constraints=RVec([])))
            pinst = pinstance(spec, declared, hints)
            before = rd.instance(deep_clone(pinst), 'v1::ParametricInstance')
            present = {i: P.choose(2) for i in declared}
            extra = P.choose(2)
            pv = {i: dom(P, f'p{i}') for i in declared if present[i]}
            if extra:
                pv[77] = dom(P, 'p77')
            supplied = eng.struct('v1::Parameters', entries=RMap('hash', False, [[k, v] for k, v in pv.items()]))

            def witness(model):
                pd = chk.conv.to_dict(pinstance(spec, declared, hints), MSGP, model)
                sd = {'entries': [(k, valconv.fv_to_float(v, model)) for k, v in pv.items()]}
                case = {'op': 'with_parameters', 'parametric': chk.hexdict(pd, MSGP), 'parameters': chk.hexdict(sd, 'ommx.v1.Parameters')}
                missing = any(not present[i] for i in declared)
                pvals = {k: F(v) for k, v in sd['entries']}

                def cexp(f):
                    out = {}
                    for ids, c in canon_poly(fn_monomials(f), drop_zero=False).items():
                        k = tuple(i for i in ids if i not in pvals)
                        v = c
                        for i in ids:
                            if i in pvals:
                                v *= pvals[i]
                        out[k] = out.get(k, 0) + v
                    return out

                def judge(res):
                    if missing:
                        return 'err' not in res
                    if 'ok' not in res:
                        return True
                    inst = chk.unhex(res['ok']['instance'], MSGI)
                    pairs = [(inst['objective'], pd['objective'])] + [(a['function'], b['function']) for a, b in zip(inst['constraints'], pd['constraints'])]
                    for got_f, orig_f in pairs:
                        g, e = canon_poly(fn_monomials(got_f)), cexp(orig_f)
                        if any(abs(g.get(k, 0) - e.get(k, 0)) > 1e-9 * (1 + abs(e.get(k, 0))) for k in set(g) | set(e)):
                            return True
                    if [c['id'] for c in inst['constraints']] != [c['id'] for c in pd['constraints']] or inst['sense'] != pd['sense']:
                        return True
                    if inst['removed_constraints'] != pd['removed_constraints'] or inst['constraint_hints'] != pd['constraint_hints']:
                        return True
                    if inst['parameters'] is None or sorted(inst['parameters']['entries']) != sorted(sd['entries']):
                        return True
                    return False
                return case, judge, f'with_parameters({sd}) on {pd}'
            try:
                res = P.it.run_body(wp, [pinst, supplied])
            except RustPanic:
                P.fail('no-panic', witness)
                return
            missing = any(not present[i] for i in declared)
            if res.vname != 'Ok':
                P.cover('err')
                P.require('err-iff-missing', missing, witness)
                return
            P.cover('ok')
            if missing:
                P.fail('missing-parameter-accepted', witness)
                return
            out = rd.instance(res.f[0])
            conj = [[v['id'] for v in out['vars']] == [1, 2], scalar_eq(out['sense'], MAXIMIZE), [c['id'] for c in out['cons']] == [c.id for c in cons]]
            conj.append(val_eq(RVec([x for x in deref(eng.field(res.f[0], 'v1::Instance', 'removed_constraints')).items]),
                               RVec([B.rem(r_) for r_ in rem])))
            conj.append(out['hints'] is not None and val_eq(out['hints'], hints.f[0]))
            # supplied values recorded
            rec = out['parameters']
            if rec is None:
                P.fail('parameters-recorded', witness)
                return
            recd = dict((e[0], e[1]) for e in deref(eng.field(rec, 'v1::Parameters', 'entries')).entries)
            conj.append(sorted(recd) == sorted(pv))
            for k, v in pv.items():
                if k in recd:
                    conj.append(feq(recd[k], v))
            # functions: den(obj')(x) == den(obj)(x, p)
            pairs = [(out['objective'], obj)] + [(c['function'], cs.fn) for c, cs in zip(out['cons'], cons)]
            for got_f, orig in pairs:
                exp = subst_params(sym_canon(orig[1]), pv) if orig else {}
                got = {}
                if got_f is not None:
                    for ids, cf in read_monos(chk, got_f)[0]:
                        k = tuple(sorted(ids))
                        got[k] = r_add(got.get(k, Fraction(0)), cf.r)
                n = len(orig[1].monos) if orig else 0
                tol = (n + 4) * EPS * 2 ** 24
                for k in set(got) | set(exp):
                    conj.append(within(got.get(k, Fraction(0)), exp.get(k, Fraction(0)), tol))
                    conj.append(not (set(k) & set(pv)) or k not in got)
            P.require('instantiated', b_and(*conj), witness)
        return h

    shapes = [(('linear', 2), [], 1), (('quadratic', 1, 2), [], 1), (('quadratic', 1, 1), [('linear', 1)], 2), (('polynomial', (1, 2)), [], 2), (('polynomial', (3,)), [('linear', 1)], 2),
              (None, [('linear', 2), ('quadratic', 1, None)], 2), (('polynomial', (0, 2)), [('linear', 1)], 1)]
    if chk.tier == 'thorough':
        shapes += [(('polynomial', (2, 2)), [('linear', 1)], 2), (('quadratic', 2, None), [('polynomial', (1, 1))], 2), (('polynomial', (3,)), [('linear', 2), ('linear', 2)], 2)]
        # (polynomial (2,2) with a 2-monomial quadratic constraint exceeds 200000 paths: replaced by a linear constraint)
    for oshape, cshapes, nd in shapes:
        chk.harness(f'with_parameters:obj={oshape}/cons={cshapes}/declared={nd}', mk(oshape, cshapes, nd), regions=['ok', 'err'])

    # Instance -> ParametricInstance -> with_parameters(empty) keeps the problem
    def h_round(P):
        from .c03 import build_function_choose
        fval, sf = build_function_choose(P, ('polynomial', (0, 2)), lambda n: dom(P, n))
        g, gs = build_function_choose(P, ('quadratic', 1, None), lambda n: dom(P, n))
        spec = Inst(objective=(fval, sf), vars=[Var(0, 3), Var(1, 3), Var(2, 3)], cons=[Con(3, LE, (g, gs))], removed=[Rem(Con(4, EQ, (deep_clone(g), gs)))])
        # the instance may carry the values recorded by an earlier instantiation (ids 7, 9: unrelated to any function)
        recorded = P.choose(2) == 1
        rv = P.real('recorded7')

        def mkinst():
            i_ = B.instance(spec)
            if recorded:
                eng.setfield(i_, 'v1::Instance', 'parameters', Some(eng.struct('v1::Parameters', entries=RMap('hash', False, [[7, rv], [9, fin(Fraction(1))]]))))
            return i_
        inst = mkinst()

        def witness(model):
            idict = chk.conv.to_dict(mkinst(), MSGI, model)
            case = {'op': 'instance_roundtrip', 'instance': chk.hexdict(idict, MSGI)}

            def judge(res):
                if 'ok' not in res:
                    return True
                out_ = chk.unhex(res['ok']['instance'], MSGI)
                same = lambda a, b: all(abs(canon_poly(fn_monomials(a)).get(k, 0) - canon_poly(fn_monomials(b)).get(k, 0)) <= 1e-9
                                        for k in set(canon_poly(fn_monomials(a))) | set(canon_poly(fn_monomials(b))))
                return not (same(out_['objective'], idict['objective']) and len(out_['constraints']) == 1 and
                            same(out_['constraints'][0]['function'], idict['constraints'][0]['function']) and len(out_['removed_constraints']) == 1)
            return case, judge, f'Instance -> ParametricInstance -> with_parameters(no values) on {idict}'
        try:
            p = P.it.run_body(from_i, [inst])
            res = P.it.run_body(wp, [p, eng.struct('v1::Parameters', entries=RMap('hash'))])
        except RustPanic:
            P.fail('no-panic', witness)
            return
        if res.vname != 'Ok':
            P.fail('ok', witness)
            return
        out = rd.instance(res.f[0])
        conj = []
        for got_f, orig in [(out['objective'], sf), (out['cons'][0]['function'], gs)]:
            exp = sym_canon(orig)
            got = {}
            for ids, cf in read_monos(chk, got_f)[0]:
                k = tuple(sorted(ids))
                got[k] = r_add(got.get(k, Fraction(0)), cf.r)
            for k in set(got) | set(exp):
                conj.append(within(got.get(k, Fraction(0)), exp.get(k, Fraction(0)), 8 * EPS * 2 ** 24))
        conj.append(len(out['removed']) == 1 and [v['id'] for v in out['vars']] == [0, 1, 2])
        P.require('roundtrip', b_and(*conj), witness)
    chk.harness('instance->parametric->instance', h_round)
    chk.validation('with_parameters', lambda c: validate(c, wp))


def slots_of(shape):
    if shape[0] == 'linear':
        return shape[1]
    if shape[0] == 'quadratic':
        return 2 * shape[1] + (shape[2] or 0)
    if shape[0] == 'polynomial':
        return sum(shape[1])
    return 0


def build_function_ids(P, shape, pre, idset, coef):
    chk = P.check
    M = chk.M
    newid = lambda: idset[P.choose(len(idset))]
    kind = shape[0]
    if kind == 'constant':
        c = coef(pre + '_c')
        return M.function('Constant', c), SymFn([([], c)])
    if kind == 'linear':
        v, m = build_linear(P, shape[1], pre, newid, coef)
        return M.function('Linear', v), SymFn(m)
    if kind == 'quadratic':
        v, m = build_quadratic(P, shape[1], shape[2], pre, newid, coef)
        return M.function('Quadratic', v), SymFn(m)
    v, m = build_polynomial(P, shape[1], pre, newid, coef)
    return M.function('Polynomial', v), SymFn(m)


def validate(chk, wp):
    from . import c05
    from .c01 import random_function_dict
    rng = chk.rng
    n = 40 if chk.tier == 'quick' else 300
    for t in range(n):
        inst, _ = c05.rand_instance(rng)
        pd = {k: v for k, v in inst.items() if k != 'parameters'}
        pd['parameters'] = [{'id': 5, 'name': 'w', 'subscripts': [], 'parameters': [], 'description': None}]
        pd['objective'] = random_function_dict(rng, ('polynomial', (1, 2, 0)), idmax=5, K=16, shift=3)
        sd = {'entries': [(5, rng.randint(-8, 8) / 4)] if rng.random() < .8 else []}
        case = {'op': 'with_parameters', 'parametric': chk.hexdict(pd, MSGP), 'parameters': chk.hexdict(sd, 'ommx.v1.Parameters')}
        pv, sv = chk.conv.from_dict(pd, MSGP), chk.conv.from_dict(sd, 'ommx.v1.Parameters')

        def py(it, pv=pv, sv=sv):
            r = it.run_body(wp, [pv, sv])
            if r.vname != 'Ok':
                return 'err'
            d = chk.conv.to_dict(r.f[0], MSGI)
            return ({k: float(v) for k, v in canon_poly(fn_monomials(d['objective'])).items()}, sorted(d['parameters']['entries']), len(d['constraints']))

        def nat(res):
            if 'ok' not in res:
                return 'err'
            d = chk.unhex(res['ok']['instance'], MSGI)
            return ({k: float(v) for k, v in canon_poly(fn_monomials(d['objective'])).items()}, sorted(d['parameters']['entries']), len(d['constraints']))
        chk.validate('with_parameters', py, case, nat)


if __name__ == '__main__':
    main('C10', build)
