"""C03 — partial evaluation commutes with evaluation: functions, constraints, instances (engine M)."""
import z3
from fractions import Fraction
from .common import *
from .oracles import *
from .shapes import *
from .instances import *
from . import c05
from mirsym.interp import deep_clone, f_cmp

EPS = Fraction(2.220446049250313e-16)
MSGF, MSGS, MSGI = 'ommx.v1.Function', 'ommx.v1.State', 'ommx.v1.Instance'
# membership of the state keys 0,1,2:  'a' first fixed part, 'b' second fixed part, 's' remaining part, '-' no value
MEMBERSHIP = ['aaa', 'sss', 'abs', 'asa', 'ssa', 'as-', 'a-s', 'bas', 'sab', '-sa']
LO, HI = Fraction(1, 64), Fraction(64)


def dom(P, name, mode='signed'):
    c = P.real(name)
    lo, hi = z3real(LO), z3real(HI)
    if mode == 'positive':
        P.ctx.assume(z3.And(c.r >= lo, c.r <= hi))
    else:
        P.ctx.assume(z3.Or(c.r == 0, z3.And(c.r >= lo, c.r <= hi), z3.And(-c.r >= lo, -c.r <= hi)))
    return c


def fshapes(tier):
    s = [('none',), ('constant',), ('linear', 1), ('linear', 2), ('linear', 3), ('quadratic', 1, None), ('quadratic', 2, 1), ('quadratic', 1, 2),
         ('polynomial', (1,)), ('polynomial', (3,)), ('polynomial', (1, 2)), ('polynomial', (0, 2)), ('polynomial', (2, 2)), ('polynomial', (1, 1, 1))]
    if tier == 'thorough':
        s += [('quadratic', 3, None), ('quadratic', 2, 2), ('polynomial', (2, 3)), ('polynomial', (1, 2, 2)), ('polynomial', (3, 3))]
    return s


def nslots(shape):
    if shape[0] == 'linear':
        return shape[1]
    if shape[0] == 'quadratic':
        return 2 * shape[1] + (shape[2] or 0)
    if shape[0] == 'polynomial':
        return sum(shape[1])
    return 0


def build(chk):
    eng = chk.eng
    ev_f = eng.method('evaluate', first_param='&v1::Function')
    pe_f = eng.method('partial_evaluate', first_param='&mut v1::Function')
    pe_c = eng.method('partial_evaluate', first_param='&mut v1::Constraint')
    pe_r = eng.method('partial_evaluate', first_param='&mut v1::RemovedConstraint')
    pe_i = eng.method('partial_evaluate', first_param='&mut v1::Instance')
    ev_i = eng.method('evaluate', first_param='&v1::Instance')
    B, rd = Build(chk), Rd(chk)
    chk.bounds = {'function shapes': '<= 3 terms/entries/monomials, degree <= 3 (quick) / <= 6 id slots (thorough)',
                  'ids': 'every assignment of {0,1,2} to the id slots (explored paths)', 'state split': MEMBERSHIP,
                  'values/coefficients': 'symbolic reals: 0 or magnitude in [2^-6, 2^6] (positive only when a message has more than 4 id slots)',
                  'instances': '3 used variables + 1 irrelevant, objective + 1 active + 1 removed constraint + 1 dependency'}
    chk.assumptions += [
        'R-model; equality of values is asserted up to (n+4)*2^24*f64::EPSILON (documented epsilon-dropping inside partial_evaluate, magnitudes bounded by 2^6 per factor)',
        'when the combined assignment lacks a variable of the original, nothing is required of the two-step result (a term dropped for a zero coefficient may hide the missing id)',
        'instance level: in-bound states only (the property quantifies over in-bound states), equalities in {=0,<=0}',
        'library models trusted and validated natively each run',
    ]

    def split_state(P, pattern, mode):
        xs = {k: dom(P, f'x{k}', mode) for k in range(3)}
        parts = {'a': [], 'b': [], 's': []}
        for k, m in enumerate(pattern):
            if m != '-':
                parts[m].append((k, xs[k]))
        return parts, xs

    def mk_fn(shape, two_step, wrap):
        def h(P):
            mode = 'signed' if nslots(shape) <= 4 else 'positive'
            ids_seen = []

            def coef(n):
                return dom(P, n, mode)
            cnt = [0]
            fval, sf = build_function_choose(P, shape, coef)
            pattern = MEMBERSHIP[P.choose(len(MEMBERSHIP))]
            if not two_step and 'b' in pattern:
                pattern = pattern.replace('b', 'a')
            parts, xs = split_state(P, pattern, mode)
            s1 = parts['a'] + parts['b']
            allv = dict(s1 + parts['s'])
            fids = set(sf.ids())
            fixed_keys = {k for k, _ in s1}
            target = deep_clone(fval)
            obj = target
            if wrap == 'constraint':
                obj = B.con(Con(4, LE, (target, sf)))
                target_fn = lambda: rd.opt(eng.field(obj, 'v1::Constraint', 'function'))
                body = pe_c
            elif wrap == 'removed':
                obj = B.rem(Rem(Con(4, EQ, (target, sf))))
                target_fn = lambda: rd.opt(eng.field(rd.opt(eng.field(obj, 'v1::RemovedConstraint', 'constraint')), 'v1::Constraint', 'function'))
                body = pe_r
            else:
                target_fn = lambda: obj
                body = pe_f

            def witness(model):
                fd = chk.conv.to_dict(fval, MSGF, model)
                st1 = {'entries': [(k, valconv.fv_to_float(v, model)) for k, v in s1]}
                st2 = {'entries': [(k, valconv.fv_to_float(v, model)) for k, v in parts['s']]}
                case = {'op': 'pe_then_eval', 'f': chk.hexdict(fd, MSGF), 's1': chk.hexdict(st1, MSGS), 's2': chk.hexdict(st2, MSGS)}
                want = fn_eval(fd, {**state_assign(st1), **state_assign(st2)})
                wused = sorted(fn_ids(fd) & {k for k, _ in st1['entries']})

                def judge(res):
                    if 'ok' not in res:
                        return True
                    r = res['ok']
                    g = chk.unhex(r['f'], MSGF)
                    if not set(r['used']) <= set(wused) or (fn_ids(g) & {k for k, _ in st1['entries']}):
                        return True
                    if want is None:
                        return False
                    return 'value' not in r or not close(r['value'], want, rel=1e-6)
                return case, judge, f'partial_evaluate({fd}, {st1}) then evaluate at {st2}: expected value {None if want is None else float(want)}, used within {wused}'
            try:
                used = set()
                steps = [parts['a'], parts['b']] if two_step else [s1]
                for part in steps:
                    r = P.it.run_body(body, [ref_to(obj), ref_to(B.state(part))])
                    if r.vname != 'Ok':
                        P.fail('partial_evaluate-ok', witness)
                        return
                    used |= {e[0] for e in deref(r.f[0]).entries}
                g = target_fn()
                res = P.it.run_body(ev_f, [ref_to(g), ref_to(B.state(parts['s']))]) if g is not None else None
            except RustPanic:
                P.fail('no-panic', witness)
                return
            gm = c02_read(chk, g) if g is not None else []
            mentions = set()
            for ids, c in gm:
                mentions |= set(ids)
            conj = [used <= (fids & fixed_keys), not (mentions & fixed_keys)]
            complete = fids <= set(allv)
            if complete:
                P.cover('complete-assignment')
                n = len(sf.monos)
                tol = (n + 4) * EPS * 2 ** 24
                if res is None or res.vname != 'Ok':
                    conj.append(False)
                else:
                    want = sf.denote(lambda i: allv[i].r)
                    d = r_sub(res.f[0].f[0].r, want)
                    conj.append(within(d, Fraction(0), tol))
            if fids & fixed_keys:
                P.cover('some-variable-fixed')
            P.require('commutes', b_and(*conj), witness)
        return h

    for shape in fshapes(chk.tier):
        regs = ['complete-assignment'] + (['some-variable-fixed'] if nslots(shape) else [])
        chk.harness('function:' + '/'.join(map(str, shape)), mk_fn(shape, False, None), regions=regs)
        if nslots(shape) >= 2 and (chk.tier == 'thorough' or nslots(shape) <= 4):
            chk.harness('function-two-step:' + '/'.join(map(str, shape)), mk_fn(shape, True, None), regions=regs)
    for shape in [('linear', 2), ('quadratic', 1, 1), ('polynomial', (1, 2))]:
        chk.harness('constraint:' + '/'.join(map(str, shape)), mk_fn(shape, False, 'constraint'), regions=['complete-assignment'])
        chk.harness('removed-constraint:' + '/'.join(map(str, shape)), mk_fn(shape, False, 'removed'), regions=['complete-assignment'])

    # ---------------------------------------------------------------- instance level
    def lin(P, pre, ids, mode='signed'):
        terms = [(i, dom(P, f'{pre}_a{n}', mode)) for n, i in enumerate(ids)]
        k = dom(P, f'{pre}_k', mode)
        return chk.M.function('Linear', chk.M.linear(terms, k)), SymFn([([i], c) for i, c in terms] + [([], k)])

    def quad(P, pre, i, j, lids):
        q = dom(P, pre + '_q')
        terms = [(t, dom(P, f'{pre}_l{n}')) for n, t in enumerate(lids)]
        k = dom(P, pre + '_k')
        return (chk.M.function('Quadratic', chk.M.quadratic([(i, j, q)], chk.M.linear(terms, k))),
                SymFn([([i, j], q)] + [([t], c) for t, c in terms] + [([], k)]))

    def h_inst(two_step, objkind):
        def h(P):
            pattern = ['aaa', 'sss', 'abs', 'asa', 'ssa', 'bas', 'sab'][P.choose(7)]
            if not two_step:
                pattern = pattern.replace('b', 'a')
            ids = [1, 2, 3]
            xs = {i: dom(P, f'x{i}') for i in ids}
            lo2, hi2 = P.real('lo2'), P.real('hi2')
            P.ctx.assume(z3.And(lo2.r <= xs[2].r, xs[2].r <= hi2.r))
            parts = {'a': [], 'b': [], 's': []}
            for i, m in zip(ids, pattern):
                parts[m].append((i, xs[i]))
            obj = lin(P, 'o', [1, 2]) if objkind == 'linear' else quad(P, 'o', 1, 3, [2])
            spec = Inst(sense=MINIMIZE, objective=obj,
                        vars=[Var(1, 3), Var(2, 2, (lo2, hi2)), Var(3, 1, None), Var(5, 3, (P.real('lo5'), PINF))],
                        cons=[Con(11, LE if P.choose(2) else EQ, lin(P, 'g', [2, 3]), name='c11')],
                        removed=[Rem(Con(12, EQ, lin(P, 'r', [1, 3])), reason='why', params=[('k', 'v')])],
                        deps=[(7, lin(P, 'd', [1, 2]))])
            # binary variable 3: value within [0,1]
            P.ctx.assume(z3.And(xs[3].r >= 0, xs[3].r <= 1))
            inst = B.instance(spec)
            s1 = parts['a'] + parts['b']
            full_state = s1 + parts['s']
            fixed = {i for i, _ in s1}

            def witness(model):
                idict = chk.conv.to_dict(B.instance(spec), MSGI, model)
                st1 = {'entries': [(k, valconv.fv_to_float(v, model)) for k, v in s1]}
                st2 = {'entries': [(k, valconv.fv_to_float(v, model)) for k, v in parts['s']]}
                case = {'op': 'pe_then_eval_instance', 'instance': chk.hexdict(idict, MSGI), 's1': chk.hexdict(st1, MSGS), 's2': chk.hexdict(st2, MSGS)}
                if two_step:
                    case['s1'] = chk.hexdict({'entries': [(k, valconv.fv_to_float(v, model)) for k, v in parts['a']]}, MSGS)
                    case['s1b'] = chk.hexdict({'entries': [(k, valconv.fv_to_float(v, model)) for k, v in parts['b']]}, MSGS)
                exp = c05.concrete_expected(idict, {'entries': st1['entries'] + st2['entries']})

                def judge(res):
                    if 'ok' not in res:
                        return exp is not None
                    if exp is None:
                        return False
                    sol = chk.unhex(res['ok']['solution'], 'ommx.v1.Solution')
                    return not c05.solution_matches(sol, exp)
                return case, judge, f'partial_evaluate(instance, {st1}) then evaluate at {st2} vs evaluate at the union; instance={idict}'
            try:
                used = set()
                for part in ([parts['a'], parts['b']] if two_step else [s1]):
                    r = P.it.run_body(pe_i, [ref_to(inst), ref_to(B.state(part))])
                    if r.vname != 'Ok':
                        P.fail('partial_evaluate-ok', witness)
                        return
                    used |= {e[0] for e in deref(r.f[0]).entries}
                res = P.it.run_body(ev_i, [ref_to(inst), ref_to(B.state(parts['s']))])
            except RustPanic:
                P.fail('no-panic', witness)
                return
            exp = c05.expected(spec, full_state)
            after = rd.instance(inst)
            conj = [used <= ({1, 2, 3} & fixed)]
            for v in after['vars']:
                want = dict(s1).get(v['id'])
                if want is None:
                    conj.append(v['sub'] is None)
                else:
                    conj.append(v['sub'] is not None and feq(v['sub'], want))
            # no function mentions a fixed variable any more
            for fval_ in [after['objective']] + [c['function'] for c in after['cons']] + [r_['constraint']['function'] for r_ in after['removed']] + [f for _, f in after['deps']]:
                for ids_, c_ in c02_read(chk, fval_):
                    conj.append(not (set(ids_) & fixed))
            if res.vname != 'Ok':
                P.require('accepted', b_not(exp['ok']), witness)
                return
            sol = rd.solution(res.f[0].f[0])
            tol = 12 * EPS * 2 ** 24

            def near(a, b):
                d = r_sub(a.r, b.r)
                return abs(d) <= tol if isinstance(d, Fraction) else z3.And(d <= z3real(tol), -d <= z3real(tol))
            conj += [exp['ok'], near(sol['objective'], exp['objective'])]
            if len(sol['evaluated_constraints']) != len(exp['cons']):
                P.fail('constraint-count', witness)
                return
            for ec, (c, val, r_) in zip(sol['evaluated_constraints'], exp['cons']):
                conj += [ec['id'] == c.id, near(ec['value'], val)]
            # feasibility flags: equal unless a constraint value lies within the rounding allowance of the threshold
            away = []
            for c, val, r_ in exp['cons']:
                t = c05.ATOL_FEAS.r
                vv = val.r if c.eq == LE else (z3.If(z3real(val.r) >= 0, z3real(val.r), -z3real(val.r)) if not isinstance(val.r, Fraction) else abs(val.r))
                dd = r_sub(vv, t)
                away.append(abs(dd) > tol if isinstance(dd, Fraction) else z3.Or(dd > z3real(tol), -dd > z3real(tol)))
            flags = b_and(z3bool(sol['feasible_relaxed']) == z3bool(exp['feasible_relaxed']), z3bool(sol['feasible']) == z3bool(exp['feasible']))
            conj.append(b_or(b_not(b_and(*away)), flags))
            rep = dict(sol['state'] or [])
            if sorted(rep) != sorted(exp['state']):
                P.fail('reported-state-keys', witness)
                return
            for k, v in exp['state'].items():
                conj.append(near(rep[k], v))
            P.cover('accepted')
            P.require('instance-commutes', b_and(*conj), witness)
        return h
    chk.harness('instance:linear-objective', h_inst(False, 'linear'), regions=['accepted'])
    chk.harness('instance:quadratic-objective', h_inst(False, 'quadratic'), regions=['accepted'])
    chk.harness('instance-two-step:linear-objective', h_inst(True, 'linear'), regions=['accepted'])
    chk.validation('partial_evaluate', lambda c: validate(c, pe_f, ev_f, pe_i, ev_i))


def build_function_choose(P, shape, coef):
    """function message with id slots chosen from {0,1,2} by explored choice"""
    chk = P.check
    M = chk.M
    newid = lambda: P.choose(3)
    kind = shape[0]
    if kind == 'none':
        return M.function(), SymFn([])
    if kind == 'constant':
        c = coef('f_c')
        return M.function('Constant', c), SymFn([([], c)])
    if kind == 'linear':
        v, m = build_linear(P, shape[1], 'f', newid, coef)
        return M.function('Linear', v), SymFn(m)
    if kind == 'quadratic':
        v, m = build_quadratic(P, shape[1], shape[2], 'f', newid, coef)
        return M.function('Quadratic', v), SymFn(m)
    v, m = build_polynomial(P, shape[1], 'f', newid, coef)
    return M.function('Polynomial', v), SymFn(m)


def c02_read(chk, fval):
    from .c02 import read_monos
    if fval is None:
        return []
    return read_monos(chk, fval)[0]


def validate(chk, pe_f, ev_f, pe_i, ev_i):
    from .c01 import random_function_dict
    rng = chk.rng
    n = 60 if chk.tier == 'quick' else 500
    shapes = fshapes('thorough')
    for t in range(n):
        fd = random_function_dict(rng, rng.choice(shapes), idmax=2, K=16, shift=3)
        st1 = {'entries': [(k, rng.randint(-16, 16) / 8) for k in range(3) if rng.random() < 0.5]}
        st2 = {'entries': [(k, rng.randint(-16, 16) / 8) for k in range(3) if k not in dict(st1['entries']) and rng.random() < 0.8]}
        case = {'op': 'pe_then_eval', 'f': chk.hexdict(fd, MSGF), 's1': chk.hexdict(st1, MSGS), 's2': chk.hexdict(st2, MSGS)}
        fv, s1v, s2v = chk.conv.from_dict(fd, MSGF), chk.conv.from_dict(st1, MSGS), chk.conv.from_dict(st2, MSGS)

        def py(it, fv=fv, s1v=s1v, s2v=s2v):
            r = it.run_body(pe_f, [ref_to(fv), ref_to(s1v)])
            if r.vname != 'Ok':
                return 'err'
            used = sorted(e[0] for e in deref(r.f[0]).entries)
            g = chk.conv.to_dict(fv, MSGF)
            r2 = it.run_body(ev_f, [ref_to(fv), ref_to(s2v)])
            return (canon_poly(fn_monomials(g)), used, float(r2.f[0].f[0].r) if r2.vname == 'Ok' else None)

        def nat(res):
            if 'ok' not in res:
                return 'err'
            r = res['ok']
            return (canon_poly(fn_monomials(chk.unhex(r['f'], MSGF))), sorted(r['used']), r.get('value'))
        chk.validate('Function::partial_evaluate', py, case, nat)
    for t in range(n // 3):
        inst, state = c05.rand_instance(rng)
        ents = state['entries']
        st1 = {'entries': [e for e in ents if rng.random() < 0.5]}
        st2 = {'entries': [e for e in ents if e not in st1['entries']]}
        case = {'op': 'pe_then_eval_instance', 'instance': chk.hexdict(inst, MSGI), 's1': chk.hexdict(st1, MSGS), 's2': chk.hexdict(st2, MSGS)}
        iv, s1v, s2v = chk.conv.from_dict(inst, MSGI), chk.conv.from_dict(st1, MSGS), chk.conv.from_dict(st2, MSGS)

        def py2(it, iv=iv, s1v=s1v, s2v=s2v):
            r = it.run_body(pe_i, [ref_to(iv), ref_to(s1v)])
            if r.vname != 'Ok':
                return 'err'
            used = sorted(e[0] for e in deref(r.f[0]).entries)
            r2 = it.run_body(ev_i, [ref_to(iv), ref_to(s2v)])
            if r2.vname != 'Ok':
                return (used, 'err')
            return (used, c05.norm_solution(chk.conv.to_dict(r2.f[0].f[0], 'ommx.v1.Solution')))

        def nat2(res):
            if 'ok' not in res:
                return 'err'
            r = res['ok']
            if 'solution' not in r:
                return (sorted(r['used']), 'err')
            return (sorted(r['used']), c05.norm_solution(chk.unhex(r['solution'], 'ommx.v1.Solution')))
        chk.validate('Instance::partial_evaluate', py2, case, nat2)


if __name__ == '__main__':
    main('C03', build)
