"""C13 — integer-slack conversions preserve the feasible set (engine M)."""
import itertools, math
import z3
from fractions import Fraction
from .common import *
from .oracles import *
from .instances import *
from .c02 import read_monos
from mirsym.interp import deep_clone, f_cmp

MSGI = 'ommx.v1.Instance'
# concrete coefficient tuples (c1, c2, c12, k): f = c1*x1 + c2*x2 + c12*x1*x2 + k ; integers and dyadic rationals (exact in binary64)
COEFS_QUICK = [(1, 1, 0, -1), (2, -3, 0, 1), (Fraction(1, 2), Fraction(1, 4), 0, -1), (3, 0, 0, Fraction(-3, 2)), (-1, -2, 0, -1), (1, 1, 0, 7), (0, 0, 0, 0),
               (2, 4, 0, -6), (1, -1, 1, 0), (Fraction(1, 2), 0, Fraction(-3, 2), -1), (0, 0, 0, -2), (0, 0, 0, 3), (6, -4, 0, 0)]
COEFS_MORE = [(5, 3, 0, -7), (Fraction(3, 4), Fraction(-5, 4), 0, Fraction(1, 2)), (1, 2, -1, -2), (-2, 2, 0, -1), (4, 6, 0, -9), (Fraction(1, 8), Fraction(3, 8), 0, -1), (0, 1, 1, -3)]


def content_factor(cs):
    cs = [Fraction(c) for c in cs if c != 0]
    if not cs:
        return Fraction(1)
    num = 0
    den = 1
    for c in cs:
        num = math.gcd(num, abs(c.numerator))
        den = den * c.denominator // math.gcd(den, c.denominator)
    return Fraction(den, num)


def build(chk):
    eng = chk.eng
    conv = eng.method('convert_inequality_to_equality_with_integer_slack', first_param='&mut v1::Instance')
    addslack = eng.method('add_integer_slack_to_inequality', first_param='&mut v1::Instance')
    B, rd = Build(chk), Rd(chk)
    coefs = COEFS_QUICK + (COEFS_MORE if chk.tier == 'thorough' else [])
    REPS = coefs if chk.tier == 'thorough' else [c for n, c in enumerate(coefs) if n % 3 == 1]
    chk.bounds = {'constraint functions': 'f = c1*x1 + c2*x2 + c12*x1*x2 + k for the listed concrete coefficient tuples (integers and dyadic rationals, exact in binary64): ' +
                  '; '.join(str(tuple(str(x) for x in c)) for c in coefs),
                  'variable listing': 'ids 1,2,9 listed ascending or as 2,9,1', 'representations': 'normalised; a repeated id in the linear part / mirrored quadratic entries; polynomial arm with unsorted ids and a repeated monomial (quick: every third tuple, thorough: all)', 'variables': 'x1, x2 integer or binary (kind by explored choice; continuous, and for x1 also semi-continuous / semi-integer / unspecified, for the rejection path); integer box endpoints symbolic in [-3,3] with lower <= upper; '
                  'binary variables without explicit bound', 'points': 'x1, x2 symbolic integers in the box: the solver covers every lattice point and (through the closed form s = -f(x)/b) every slack value',
                  'limits': 'max_integer_range and slack_upper_bound from {1, 3, 1000} resp. {1, 4}'}
    chk.assumptions += ['R-model; coefficients are concrete because Rational64::approximate_float (continued fractions on f64) is a concrete library model, validated differentially '
                        'against the native crate; non-dyadic rational coefficients (1/3, ...) are outside: they are not exact in binary64 and the equality f + s/a = 0 is then only approximate',
                        'library models trusted and validated natively each run']

    def setup(P, coef, kinds_allowed):
        c1, c2, c12, k = [fin(Fraction(c)) for c in coef]
        # the first variable also takes the kinds that are neither integer nor binary nor plainly continuous
        # (semi-continuous 5, semi-integer 4, unspecified 0): only Binary/Integer variables may be converted
        k1 = kinds_allowed + [5, 4, 0]
        kinds = [k1[P.choose(len(k1))], kinds_allowed[P.choose(len(kinds_allowed))]]
        ends, xs, vars_ = [], [], []
        for i in (1, 2):
            if kinds[i - 1] == 1:
                lo_i, hi_i = z3.IntVal(0), z3.IntVal(1)
                vars_.append(Var(i, 1, None))
            else:
                lo_i, hi_i = z3.Int(f'l{i}'), z3.Int(f'u{i}')
                P.ctx.assume(z3.And(lo_i >= -3, hi_i <= 3, lo_i <= hi_i))
                vars_.append(Var(i, kinds[i - 1], (FV('fin', z3.ToReal(lo_i)), FV('fin', z3.ToReal(hi_i)))))
            x = z3.Int(f'x{i}')
            ends.append((lo_i, hi_i))
            xs.append(x)
        monos = [([1], c1), ([2], c2), ([1, 2], c12), ([], k)]
        # representation of the same function (wire-legal, not normalised), by explored choice for the tuples in REPS:
        # 1 = a repeated id in the linear part / mirrored quadratic entries, 2 = polynomial arm with unsorted ids and a repeated monomial
        rep = P.choose(3) if coef in REPS else 0
        half = lambda c: fin(c.r / 2)
        lin_terms = [t for t in [(1, c1), (2, c2)] if t[1].r != 0]
        if rep == 1 and coef[0] != 0:
            lin_terms = [(1, fin(c1.r - 1))] + ([(2, c2)] if c2.r != 0 else []) + [(1, fin(Fraction(1)))]
        if rep == 2:
            pm = [([2, 1], half(c12)), ([1], c1), ([], k), ([2], c2), ([1, 2], half(c12))]
            fn = chk.M.function('Polynomial', chk.M.polynomial([m for m in pm if m[1].r != 0 or m[0] == []]))
        elif coef[2] != 0:
            ents = [(1, 2, c12)] if rep == 0 else [(2, 1, half(c12)), (1, 2, half(c12))]
            fn = chk.M.function('Quadratic', chk.M.quadratic(ents, chk.M.linear(lin_terms, k)))
        else:
            fn = chk.M.function('Linear', chk.M.linear(lin_terms, k))
        sf = SymFn(monos)
        inbox = z3.And(*[z3.And(l <= x, x <= u) for (l, u), x in zip(ends, xs)])
        fx = sf.denote(lambda i: z3.ToReal(xs[i - 1]))
        return kinds, vars_, fn, sf, xs, inbox, z3real(fx)

    def listing(P, vs):
        # decision variables need not be listed by ascending id: [1,2,9] or [2,9,1] (the last listed id + 1 is then a used id)
        return vs if P.choose(2) == 0 else [vs[1], vs[2], vs[0]]

    def mk_convert(coef):
        def h(P):
            kinds, vars_, fn, sf, xs, inbox, fx = setup(P, coef, [2, 1, 3])
            eqk = [LE, EQ][P.choose(2)]
            target = [5, 77][P.choose(2)]
            maxrange = [1, 3, 1000][P.choose(3)]
            spec = Inst(objective=None, vars=listing(P, vars_ + [Var(9, 3)]), cons=[Con(5, eqk, (fn, sf), name='c5'), Con(6, LE, None)], removed=[])
            inst = B.instance(spec)
            before = deep_clone(inst)
            used = {i for ids, c in sf.monos for i in ids if c.r != 0}
            continuous_used = any(kinds[i - 1] not in (1, 2) for i in used)

            def witness(model):
                idict = chk.conv.to_dict(B.instance(spec), MSGI, model)
                case = {'op': 'convert_to_equality', 'instance': chk.hexdict(idict, MSGI), 'id': target, 'max_range': maxrange}

                def judge(res):
                    return not concrete_convert_ok(chk, idict, target, maxrange, res)
                return case, judge, f'convert_inequality_to_equality_with_integer_slack({target}, {maxrange}) on {idict}'

            def role(model):
                return 'equality-constraint-not-rejected' if eqk == EQ and target == 5 else None
            try:
                res = P.it.run_body(conv, [ref_to(inst), target, maxrange])
            except RustPanic:
                P.fail('no-panic', witness, role)
                return
            if res.vname != 'Ok':
                P.cover('rejected')
                # rejected calls leave the instance unmodified
                if not P.require('rejection-leaves-instance-unchanged', val_eq(inst, before), witness):
                    return
                err = res.f[0]
                infeasible = isinstance(err, Opaque) and isinstance(err.data, Enum) and err.data.vname == 'InequalityConstraintBound'
                if infeasible:
                    P.cover('infeasible-detected')
                    # the inequality can never hold on the box
                    P.require('infeasible-only-if-never-true', z3.Implies(inbox, fx > 0), witness)
                return
            # Ok: either relaxed (always true) or converted
            if target != 5 or eqk != LE or continuous_used:
                P.fail('must-reject', witness, role)
                return
            after = rd.instance(inst)
            ids_active = [c['id'] for c in after['cons']]
            if 5 not in ids_active:
                P.cover('always-true-relaxed')
                rem = [r_ for r_ in after['removed'] if r_['constraint'] and r_['constraint']['id'] == 5]
                ok = len(rem) == 1 and val_eq(rem[0]['constraint']['function'], fn) and scalar_eq(rem[0]['constraint']['equality'], LE) and len(after['vars']) == 3
                P.require('relaxed-unchanged-and-always-true', b_and(ok, z3.Implies(inbox, fx <= 0)), witness)
                return
            P.cover('converted')
            c5 = [c for c in after['cons'] if c['id'] == 5][0]
            newv = [v for v in after['vars'] if v['id'] not in (1, 2, 9)]
            if len(newv) != 1 or newv[0]['bound'] is None:
                P.fail('one-slack-variable', witness)
                return
            s = newv[0]
            sid = s['id']
            monos = read_monos(chk, c5['function'])[0]
            b = [c for ids, c in monos if list(ids) == [sid]]
            rest = {}
            for ids, c in monos:
                if sid not in ids:
                    rest[tuple(sorted(ids))] = r_add(rest.get(tuple(sorted(ids)), Fraction(0)), c.r)
            want = {}
            for ids, c in sf.monos:
                if c.r != 0:
                    want[tuple(sorted(ids))] = r_add(want.get(tuple(sorted(ids)), Fraction(0)), c.r)
            conj = [len(b) == 1, s['kind'] == 2, sid not in (1, 2, 9), scalar_eq(c5['equality'], EQ), f_cmp('eq', s['bound'][0], ZERO)]
            for k_ in set(rest) | set(want):
                conj.append(r_cmp('eq', rest.get(k_, Fraction(0)), want.get(k_, Fraction(0))))
            if len(b) == 1 and isinstance(b[0].r, Fraction) and b[0].r != 0:
                bb = b[0].r
                S = z3real(s['bound'][1].r)
                sstar = -fx / z3real(bb)
                feasible_eq = z3.And(z3.IsInt(sstar), sstar >= 0, sstar <= S)
                conj.append(z3.Implies(inbox, (fx <= 0) == feasible_eq))
                # the slack range respects the caller's limit
                conj.append(S <= maxrange)
            else:
                conj.append(False)
            P.require('feasible-set-preserved', b_and(*conj), witness)
        return h

    def mk_add(coef):
        def h(P):
            kinds, vars_, fn, sf, xs, inbox, fx = setup(P, coef, [2, 1, 3])
            eqk = [LE, EQ][P.choose(2)]
            target = [5, 77][P.choose(2)]
            S = [1, 4][P.choose(2)]
            spec = Inst(objective=None, vars=listing(P, vars_ + [Var(9, 3)]), cons=[Con(5, eqk, (fn, sf), name='c5')], removed=[])
            inst = B.instance(spec)
            before = deep_clone(inst)
            used = {i for ids, c in sf.monos for i in ids if c.r != 0}
            continuous_used = any(kinds[i - 1] not in (1, 2) for i in used)

            def witness(model):
                idict = chk.conv.to_dict(B.instance(spec), MSGI, model)
                case = {'op': 'add_integer_slack', 'instance': chk.hexdict(idict, MSGI), 'id': target, 'upper': S}

                def judge(res):
                    return not concrete_add_ok(chk, idict, target, S, res)
                return case, judge, f'add_integer_slack_to_inequality({target}, {S}) on {idict}'
            try:
                res = P.it.run_body(addslack, [ref_to(inst), target, S])
            except RustPanic:
                P.fail('no-panic', witness)
                return
            if res.vname != 'Ok':
                P.cover('rejected')
                if not P.require('rejection-leaves-instance-unchanged', val_eq(inst, before), witness):
                    return
                err = res.f[0]
                if isinstance(err, Opaque) and isinstance(err.data, Enum) and err.data.vname == 'InequalityConstraintBound':
                    P.require('infeasible-only-if-never-true', z3.Implies(inbox, fx > 0), witness)
                elif target == 5 and eqk == LE and not continuous_used:
                    P.fail('well-formed-call-rejected', witness)
                return
            if target != 5 or eqk != LE or continuous_used:
                P.fail('must-reject', witness)
                return
            after = rd.instance(inst)
            ret = res.f[0]
            if ret.discr == 0:
                P.cover('always-true-relaxed')
                rem = [r_ for r_ in after['removed'] if r_['constraint'] and r_['constraint']['id'] == 5]
                ok = len(rem) == 1 and val_eq(rem[0]['constraint']['function'], fn) and not after['cons']
                P.require('relaxed-unchanged-and-always-true', b_and(ok, z3.Implies(inbox, fx <= 0)), witness)
                return
            P.cover('slack-added')
            bret = ret.f[0]
            c5 = after['cons'][0]
            newv = [v for v in after['vars'] if v['id'] not in (1, 2, 9)]
            if len(newv) != 1 or newv[0]['bound'] is None:
                P.fail('one-slack-variable', witness)
                return
            s = newv[0]
            monos = read_monos(chk, c5['function'])[0]
            b = [c for ids, c in monos if list(ids) == [s['id']]]
            conj = [s['kind'] == 2, f_cmp('eq', s['bound'][0], ZERO), f_cmp('eq', s['bound'][1], fin(S)), scalar_eq(c5['equality'], LE)]
            if len(b) == 1 and b[0].tag == 'fin' and bret.tag == 'fin':
                # reported b equals the stored coefficient; b >= 0 makes s = 0 the witness, so the projection on x is unchanged
                conj += [r_cmp('eq', b[0].r, bret.r), r_cmp('ge', bret.r, Fraction(0))]
            elif len(b) == 0 and bret.tag == 'fin':
                conj.append(r_cmp('eq', bret.r, Fraction(0)))
            else:
                conj.append(False)
            P.require('projection-preserved', b_and(*conj), witness)
        return h

    for coef in coefs:
        name = ','.join(str(c) for c in coef)
        chk.harness(f'convert:[{name}]', mk_convert(coef))
        chk.harness(f'add_slack:[{name}]', mk_add(coef))
    chk.validation('slack conversions', lambda c: validate(c, conv, addslack, coefs))


# ----------------------------------------------------------------------------- concrete oracles for the native replay

def box_of(idict):
    out = {}
    for v in idict['decision_variables']:
        if v['bound'] is not None:
            out[v['id']] = (v['bound']['lower'], v['bound']['upper'])
        elif v['kind'] == 1:
            out[v['id']] = (0.0, 1.0)
        else:
            out[v['id']] = (-math.inf, math.inf)
    return out


def lattice(idict, ids):
    box = box_of(idict)
    rngs = [range(math.ceil(box[i][0]), math.floor(box[i][1]) + 1) for i in ids]
    return [dict(zip(ids, p)) for p in itertools.product(*rngs)]


def concrete_convert_ok(chk, idict, target, maxrange, res):
    cons = {c['id']: c for c in idict['constraints']}
    kinds = {v['id']: v['kind'] for v in idict['decision_variables']}
    if 'panic' in res:
        return False
    c = cons.get(target)
    must_reject = c is None or c['equality'] != 2 or c['function'] is None or any(kinds.get(i) not in (1, 2) for i in fn_ids(c['function']))
    if must_reject:
        return 'err' in res
    ids = sorted(fn_ids(c['function']))
    pts = lattice(idict, ids)
    vals = [fn_eval(c['function'], {k: Fraction(v) for k, v in p.items()}) for p in pts]
    if 'err' in res:
        if res.get('infeasible'):
            return all(v > 0 for v in vals)
        return True    # range limit etc. - not decided by the concrete oracle
    after = chk.unhex(res['ok']['instance'], MSGI)
    act = {x['id']: x for x in after['constraints']}
    if target not in act:
        return all(v <= 0 for v in vals)
    all_ids = [v['id'] for v in after['decision_variables']]
    if len(set(all_ids)) != len(all_ids):
        return False          # the slack variable reuses an existing id
    newv = [v for v in after['decision_variables'] if v['id'] not in kinds]
    if len(newv) != 1:
        return False
    s = newv[0]
    f2 = act[target]['function']
    for p, v in zip(pts, vals):
        feas = False
        for sv in range(0, int(s['bound']['upper']) + 1):
            if fn_eval(f2, {**{k: Fraction(x) for k, x in p.items()}, s['id']: Fraction(sv)}) == 0:
                feas = True
        if feas != (v <= 0):
            return False
    return act[target]['equality'] == 1


def concrete_add_ok(chk, idict, target, S, res):
    cons = {c['id']: c for c in idict['constraints']}
    kinds = {v['id']: v['kind'] for v in idict['decision_variables']}
    if 'panic' in res:
        return False
    c = cons.get(target)
    must_reject = c is None or c['equality'] != 2 or c['function'] is None or any(kinds.get(i) not in (1, 2) for i in fn_ids(c['function']))
    if must_reject:
        return 'err' in res
    ids = sorted(fn_ids(c['function']))
    pts = lattice(idict, ids)
    vals = [fn_eval(c['function'], {k: Fraction(v) for k, v in p.items()}) for p in pts]
    if 'err' in res:
        return all(v > 0 for v in vals) if res.get('infeasible') else False
    after = chk.unhex(res['ok']['instance'], MSGI)
    act = {x['id']: x for x in after['constraints']}
    if target not in act:
        return all(v <= 0 for v in vals)
    all_ids = [v['id'] for v in after['decision_variables']]
    if len(set(all_ids)) != len(all_ids):
        return False          # the slack variable reuses an existing id
    newv = [v for v in after['decision_variables'] if v['id'] not in kinds]
    if len(newv) != 1:
        return False
    s = newv[0]
    f2 = act[target]['function']
    for p, v in zip(pts, vals):
        feas = any(fn_eval(f2, {**{k: Fraction(x) for k, x in p.items()}, s['id']: Fraction(sv)}) <= 0 for sv in range(0, S + 1))
        if feas != (v <= 0):
            return False
    return True


def validate(chk, conv, addslack, coefs):
    rng = chk.rng
    n = 60 if chk.tier == 'quick' else 300
    for t in range(n):
        c1, c2, c12, k = [float(Fraction(x)) for x in rng.choice(coefs)]
        vars_ = []
        for i in (1, 2):
            kind = rng.choice([1, 2, 2, 2, 3])
            lo = rng.randint(-3, 2)
            vars_.append({'id': i, 'kind': kind, 'bound': None if kind == 1 else {'lower': float(lo), 'upper': float(rng.randint(lo, 3))}, 'name': None, 'subscripts': [],
                          'parameters': [], 'description': None, 'substituted_value': None})
        if c12:
            f = {'function': ('quadratic', {'rows': [1], 'columns': [2], 'values': [c12], 'linear': {'terms': [{'id': 1, 'coefficient': c1}, {'id': 2, 'coefficient': c2}], 'constant': k}})}
        else:
            f = {'function': ('linear', {'terms': [{'id': i, 'coefficient': c} for i, c in ((1, c1), (2, c2)) if c], 'constant': k})}
        inst = {'description': None, 'decision_variables': vars_, 'objective': None, 'constraints': [{'id': 5, 'equality': rng.choice([2, 2, 2, 1]), 'function': f, 'subscripts': [],
                'parameters': [], 'name': None, 'description': None}], 'sense': 1, 'parameters': None, 'constraint_hints': None, 'removed_constraints': [], 'decision_variable_dependency': []}
        which = rng.choice(['convert', 'add'])
        arg = rng.choice([1, 3, 1000]) if which == 'convert' else rng.choice([1, 4])
        case = {'op': 'convert_to_equality' if which == 'convert' else 'add_integer_slack', 'instance': chk.hexdict(inst, MSGI), 'id': 5, 'max_range': arg, 'upper': arg}
        iv = chk.conv.from_dict(inst, MSGI)

        def py(it, iv=iv, which=which, arg=arg):
            r = it.run_body(conv if which == 'convert' else addslack, [ref_to(iv), 5, arg])
            if r.vname != 'Ok':
                return 'err'
            d = chk.conv.to_dict(iv, MSGI)
            return norm_after(d)

        def nat(res):
            if 'ok' not in res:
                return 'err'
            return norm_after(chk.unhex(res['ok']['instance'], MSGI))
        chk.validate(which, py, case, nat)


def norm_after(d):
    return ([(c['id'], c['equality'], {k: float(v) for k, v in canon_poly(fn_monomials(c['function'])).items()}) for c in d['constraints']],
            [(v['id'], v['kind'], None if v['bound'] is None else (v['bound']['lower'], v['bound']['upper'])) for v in d['decision_variables']],
            [r['constraint']['id'] for r in d['removed_constraints']])


if __name__ == '__main__':
    main('C13', build)
