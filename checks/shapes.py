"""Shape families and symbolic builders for ommx.v1.Function messages."""
import itertools
import z3
from mirsym.values import *
from .oracles import SymFn


def function_shapes(tier, max_terms=3, max_deg=4):
    """descriptors of function messages: arms x sizes (values stay symbolic)"""
    out = [('none',), ('constant',)]
    for n in range(0, max_terms + 1):
        out.append(('linear', n))
    lin_opts = [None, 0, 1, 2]
    for n in range(0, max_terms + 1):
        for l in lin_opts:
            out.append(('quadratic', n, l))
    degs = list(range(0, max_deg + 1))
    for n in range(0, max_terms + 1):
        for ds in itertools.combinations_with_replacement(degs, n):
            out.append(('polynomial', ds))
    if tier == 'quick':
        keep = []
        for s in out:
            if s[0] == 'quadratic' and (s[1], s[2]) not in ((0, None), (1, None), (2, 1), (3, 2), (1, 0), (0, 2)):
                continue
            if s[0] == 'polynomial' and s[1] not in ((), (0,), (1,), (2,), (4,), (0, 1), (1, 1), (2, 3), (1, 2, 2), (0, 1, 3), (3, 4)):
                continue
            keep.append(s)
        out = keep
    return out


def build_function(P, shape, pre, idmax, coef=None, ids_concrete=None):
    """returns (Function value, SymFn). ids: symbolic 64-bit, constrained to 0..idmax.
    coef: callable name->FV (default: unconstrained real)"""
    M = P.check.M
    coef = coef or (lambda n: P.real(n))
    cnt = [0]

    def newid():
        cnt[0] += 1
        if ids_concrete is not None:
            return ids_concrete[(cnt[0] - 1) % len(ids_concrete)]
        return P.bv(f'{pre}_id{cnt[0]}', hi=idmax)
    kind = shape[0]
    if kind == 'none':
        return M.function(), SymFn([])
    if kind == 'constant':
        c = coef(f'{pre}_c')
        return M.function('Constant', c), SymFn([([], c)])
    if kind == 'linear':
        lin, monos = build_linear(P, shape[1], pre, newid, coef)
        return M.function('Linear', lin), SymFn(monos)
    if kind == 'quadratic':
        q, monos = build_quadratic(P, shape[1], shape[2], pre, newid, coef)
        return M.function('Quadratic', q), SymFn(monos)
    if kind == 'polynomial':
        p, monos = build_polynomial(P, shape[1], pre, newid, coef)
        return M.function('Polynomial', p), SymFn(monos)
    raise ValueError(shape)


def build_linear(P, n, pre, newid, coef):
    M = P.check.M
    terms, monos = [], []
    for i in range(n):
        idv, c = newid(), coef(f'{pre}_l{i}')
        terms.append((idv, c))
        monos.append(([idv], c))
    k = coef(f'{pre}_lk')
    monos.append(([], k))
    return M.linear(terms, k), monos


def build_quadratic(P, n, lin, pre, newid, coef):
    M = P.check.M
    ents, monos = [], []
    for i in range(n):
        r, c, v = newid(), newid(), coef(f'{pre}_q{i}')
        ents.append((r, c, v))
        monos.append(([r, c], v))
    linv = None
    if lin is not None:
        linv, lm = build_linear(P, lin, pre + 'L', newid, coef)
        monos += lm
    return M.quadratic(ents, linv), monos


def build_polynomial(P, degs, pre, newid, coef):
    M = P.check.M
    ms, monos = [], []
    for i, d in enumerate(degs):
        ids = [newid() for _ in range(d)]
        c = coef(f'{pre}_p{i}')
        ms.append((ids, c))
        monos.append((ids, c))
    return M.polynomial(ms), monos
