"""C07 — the wire format matches the published schema and round-trips (engine M).

The prost-derive output of every message type (`encode_raw`, `merge_field`, `clear`, `Default`, the oneof
`encode`/`merge`, the enum tables and accessors) is executed symbolically from the MIR of rust/ommx. The leaf calls
into the external `prost` crate (`prost::encoding::{double,uint64,...,message,hash_map}::*`, `skip_field`) are modelled
as operations on an abstract wire buffer of records (field number, wire type, kind, payload); the oracle is the grammar
read from proto/ommx/v1/*.proto by an independent parser. Scalar leaves of the message under test are solver variables."""
import struct
import z3
from fractions import Fraction
from .common import *
from .oracles import *
from mirsym.models import WireBuf
from mirsym.valconv import rust_path, camel, snake, fv_to_float
from mirsym.interp import f_cmp, is_bv
from mirsym import protoschema

VARINT_KINDS = ('uint64', 'int64', 'int32', 'uint32', 'bool')
NUMERIC = ('double', 'float') + VARINT_KINDS


def kind_of(ty):
    """wire kind (the prost::encoding module) the schema demands for a scalar / enum type"""
    return 'int32' if isinstance(ty, tuple) and ty[0] == 'enum' else ty


def wt_of(kind):
    return {'double': 1, 'float': 5, 'string': 2, 'bytes': 2, 'message': 2}.get(kind, 0)


# ----------------------------------------------------------------------------- message values

class Gen:
    """builds message dicts whose scalar leaves are interpreter values: solver variables at the top level (sym=True),
    distinct concrete non-default values below it"""

    def __init__(self, chk, P=None):
        self.chk, self.P, self.n = chk, P, 0
        self.shaped = set()
        self.replen = 3 if chk.tier == 'thorough' else 2

    def leaf(self, ty, sym, name):
        self.n += 1
        n = self.n
        if isinstance(ty, tuple):
            ty = 'int32'
        if ty == 'double':
            if sym:
                # the first double leaf also takes the infinities (explored choice); the others are arbitrary reals
                shape = self.P.choose(3) if 'double' not in self.shaped else 0
                self.shaped.add('double')
                return [FV('fin', z3.Real(name)), PINF, NINF][shape]
            return FV('fin', Fraction(2 * n + 1, 2))
        if ty in ('uint64', 'int64'):
            return z3.BitVec(name, 64) if sym else 10 + n
        if ty == 'int32':
            return z3.BitVec(name, 32) if sym else 1 + n % 2
        if ty == 'bool':
            return z3.Bool(name) if sym else True
        if ty == 'string':
            if sym:
                if 'string' in self.shaped:
                    return f's{n}'
                self.shaped.add('string')
                return ['', f's{n}', 'é\n'][self.P.choose(3)]
            return f's{n}'
        raise Inconclusive('leaf type ' + str(ty))

    def message(self, full, profile, sym, depth=0, prefix=''):
        s = self.chk.schema
        m = s.messages[full]
        d = {}
        slots = presence_slots(m)
        for si, (sname, fs) in enumerate(slots):
            mode = slot_mode(profile, si)
            f = fs[0]
            nm = prefix + sname
            if len(fs) > 1 or f.oneof:       # oneof group
                if mode == 'unset':
                    d[sname] = None
                else:
                    arm = fs[profile[1] % len(fs)] if profile[0] == 'full' else fs[(profile[2] if len(profile) > 2 and profile[0] == 'only' else 0) % len(fs)]
                    d[sname] = (arm.name, self.value(arm, sym, depth, nm + '.' + arm.name))
                continue
            if f.label == 'map':
                kt, vt = f.map_kv
                if mode == 'unset':
                    d[sname] = []
                else:
                    keys = [0, 7] if kt != 'string' else ['', 'k']
                    ents = []
                    for j, k in enumerate(keys):
                        if isinstance(vt, tuple) and vt[0] == 'msg':
                            x = self.message(vt[1], ('full', j), False, depth + 1)
                        else:
                            x = self.leaf(vt, sym, f'{nm}[{j}]')
                        ents.append((k, x))
                    d[sname] = ents
            elif f.label == 'repeated':
                d[sname] = [] if mode == 'unset' else [self.value(f, sym, depth, f'{nm}[{j}]', j) for j in range(self.replen)]
            elif f.kind == 'msg' or f.label == 'optional':
                d[sname] = None if mode == 'unset' else self.value(f, sym, depth, nm)
            else:
                d[sname] = self.leaf(f.ty, sym, nm)
        return d

    def value(self, f, sym, depth, name, j=0):
        if f.kind == 'msg':
            if depth >= 3:
                return self.message(f.ref, ('empty',), False, depth + 1)
            return self.message(f.ref, ('full', j), False, depth + 1)
        return self.leaf(f.ty, sym, name)


def presence_slots(m):
    """fields grouped into slots (a oneof group is one slot); singular scalars are slots too (always 'set': symbolic)"""
    slots, seen = [], {}
    for f in m.fields:
        if f.oneof:
            if f.oneof in seen:
                seen[f.oneof].append(f)
            else:
                seen[f.oneof] = [f]
                slots.append((f.oneof, seen[f.oneof]))
        else:
            slots.append((f.name, [f]))
    return slots


def slot_mode(profile, si):
    if profile[0] == 'full':
        return 'set'
    if profile[0] == 'empty':
        return 'unset'
    if profile[0] == 'only':
        return 'set' if si == profile[1] else 'unset'
    if profile[0] == 'without':
        return 'unset' if si == profile[1] else 'set'
    if profile[0] == 'pair':
        return 'set' if si in profile[1:3] else 'unset'
    raise ValueError(profile)


def profiles(m, tier):
    slots = presence_slots(m)
    arms = max([len(fs) for _, fs in slots] + [1])
    out = [('full', a) for a in range(arms)] + [('empty',)]
    for si, (sname, fs) in enumerate(slots):
        f = fs[0]
        if len(fs) > 1 or f.oneof or f.label in ('map', 'repeated', 'optional') or f.kind == 'msg':
            for a in range(len(fs)):
                out.append(('only', si, a))
            out.append(('without', si))
    if tier == 'thorough':
        pres = [si for si, (sname, fs) in enumerate(slots) if len(fs) > 1 or fs[0].oneof or fs[0].label in ('map', 'repeated', 'optional') or fs[0].kind == 'msg']
        out += [('pair', i, j) for i in pres for j in pres if i < j]
    return out


# ----------------------------------------------------------------------------- comparisons (python bool | z3 Bool)

def is_default(kind, v):
    if kind in ('double', 'float'):
        return f_cmp('eq', v, ZERO)
    if kind == 'string':
        return (v.s if isinstance(v, RString) else v) == ''
    if kind == 'bool':
        return b_not(v) if not isinstance(v, bool) else not v
    if isinstance(v, int):
        return v == 0
    return v == z3.BitVecVal(0, v.size())


def peq(kind, a, e):
    a = deref(a)
    if kind in ('double', 'float'):
        if not isinstance(a, FV) or not isinstance(e, FV):
            return False
        if a.tag != e.tag:
            return False
        return True if a.tag != 'fin' else r_cmp('eq', a.r, e.r)
    if kind == 'string':
        sa = a.s if isinstance(a, RString) else a
        return isinstance(sa, str) and sa == (e.s if isinstance(e, RString) else e)
    if kind == 'bool':
        if isinstance(a, bool) and isinstance(e, bool):
            return a == e
        return z3bool(a) == z3bool(e)
    if isinstance(a, (FV, RString, str)) or isinstance(e, (FV, RString, str)):
        return False
    if isinstance(a, int) and isinstance(e, int) and not isinstance(a, bool):
        bits = 32 if kind in ('int32', 'uint32') else 64
        return (a - e) % (1 << bits) == 0
    if isinstance(a, bool) or isinstance(e, bool):
        return False
    r = a == e
    return r if isinstance(r, bool) else z3.simplify(r) if z3.is_expr(r) else bool(r)


class Mismatch(Exception):
    pass


class Matcher:
    """compares abstract wire records / decoded values with a message dict under the schema; collects conditions"""

    def __init__(self, schema):
        self.s = schema
        self.conds = []
        self.why = []

    def need(self, c, why):
        if c is False:
            self.why.append(why)
        if c is not True:
            self.conds.append(c)

    # ---- encoder output vs schema
    def records(self, full, recs, d, where=''):
        m = self.s.messages[full]
        groups = {}
        for r in recs:
            groups.setdefault(r[0], []).append(r)
        numbers = {f.number for f in m.fields}
        for n in groups:
            if n not in numbers:
                self.need(False, f'{where}{full}: emits field number {n}, which the schema does not define')
        for f in m.fields:
            rs = groups.get(f.number, [])
            w = f'{where}{full}.{f.name}(#{f.number})'
            if f.oneof:
                ov = d.get(f.oneof)
                if ov is None or ov[0] != f.name:
                    self.need(len(rs) == 0, f'{w}: oneof arm not set but {len(rs)} record(s) emitted')
                else:
                    self.need(len(rs) == 1, f'{w}: set oneof arm must be emitted exactly once (even when default), got {len(rs)}')
                    if len(rs) == 1:
                        self.single(f, rs[0], ov[1], w)
                continue
            v = d.get(f.name)
            if f.label == 'map':
                self.map_records(f, rs, v or [], w)
            elif f.label == 'repeated':
                self.repeated(f, rs, v or [], w)
            elif f.kind == 'msg' or f.label == 'optional':
                if v is None:
                    self.need(len(rs) == 0, f'{w}: unset field emitted')
                else:
                    self.need(len(rs) == 1, f'{w}: set optional/message field must be emitted exactly once, got {len(rs)}')
                    if len(rs) == 1:
                        self.single(f, rs[0], v, w)
            else:
                k = kind_of(f.ty)
                self.need(len(rs) <= 1, f'{w}: singular field emitted {len(rs)} times')
                if len(rs) == 0:
                    self.need(is_default(k, v), f'{w}: non-default value not emitted')
                elif len(rs) == 1:
                    # proto3 encoders may emit an explicit default; prost does not — accept both, the value must be right
                    self.single(f, rs[0], v, w)

    def single(self, f, r, v, w):
        if f.kind == 'msg':
            self.need(r[2] == 'message' and r[1] == 2, f'{w}: expected an embedded message, got {r[2]} (wire type {r[1]})')
            if r[2] == 'message':
                self.records(f.ref, r[3], v, w + '/')
            return
        k = kind_of(f.ty)
        self.need(r[1] == wt_of(k), f'{w}: wire type {r[1]}, schema type {k} needs {wt_of(k)}')
        self.need(r[2] == k, f'{w}: encoded as {r[2]}, schema says {k}')
        if r[2] == k:
            self.need(peq(k, r[3], v), f'{w}: payload differs from the field value')

    def repeated(self, f, rs, v, w):
        if f.kind == 'msg':
            self.need(len(rs) == len(v), f'{w}: {len(rs)} records for {len(v)} elements')
            for r, x in zip(rs, v):
                self.single(f, r, x, w)
            return
        k = kind_of(f.ty)
        items = []
        for r in rs:
            if r[2] == 'packed-' + k and r[1] == 2 and k in NUMERIC:
                items += list(r[3])
            elif r[2] == k and r[1] == wt_of(k):
                items.append(r[3])
            else:
                self.need(False, f'{w}: element encoded as {r[2]} (wire type {r[1]}), schema says repeated {k}')
                return
        self.need(len(items) == len(v), f'{w}: {len(items)} elements emitted for {len(v)}')
        for a, x in zip(items, v):
            self.need(peq(k, a, x), f'{w}: element differs')

    def map_records(self, f, rs, ents, w):
        kt, vt = f.map_kv
        self.need(len(rs) == len(ents), f'{w}: {len(rs)} map entries emitted for {len(ents)}')
        if len(rs) != len(ents):
            return
        kk = kind_of(kt)
        left = list(ents)
        for r in rs:
            if r[2] != 'map-entry' or r[1] != 2:
                self.need(False, f'{w}: map entry encoded as {r[2]}')
                return
            sub = {}
            for q in r[3]:
                sub.setdefault(q[0], []).append(q)
            self.need(set(sub) <= {1, 2} and all(len(x) == 1 for x in sub.values()), f'{w}: malformed map entry')
            if 1 in sub:
                q = sub[1][0]
                self.need(q[2] == kk and q[1] == wt_of(kk), f'{w}: map key encoded as {q[2]}, schema says {kk}')
                key = deref(q[3])
                key = key.s if isinstance(key, RString) else key
            else:
                key = '' if kk == 'string' else 0
            hit = [e for e in left if e[0] == key]
            if not hit:
                self.need(False, f'{w}: map entry with key {key!r} not in the message')
                return
            left.remove(hit[0])
            x = hit[0][1]
            if isinstance(vt, tuple) and vt[0] == 'msg':
                if 2 in sub:
                    q = sub[2][0]
                    self.need(q[2] == 'message', f'{w}: map value encoded as {q[2]}, schema says message')
                    if q[2] == 'message':
                        self.records(vt[1], q[3], x, w + '/')
                else:
                    self.need(False, f'{w}: non-default message value omitted')
            else:
                vk = kind_of(vt)
                if 2 in sub:
                    q = sub[2][0]
                    self.need(q[2] == vk and q[1] == wt_of(vk), f'{w}: map value encoded as {q[2]}, schema says {vk}')
                    if q[2] == vk:
                        self.need(peq(vk, q[3], x), f'{w}: map value differs')
                else:
                    self.need(is_default(vk, x), f'{w}: non-default map value omitted')

    # ---- decoded value vs dict
    def value(self, eng, full, val, d, where=''):
        m = self.s.messages[full]
        val = deref(val)
        sd = eng.layouts.structs[rust_path(full)]
        done = set()
        for f in m.fields:
            w = f'{where}{full}.{f.name}'
            if f.oneof:
                if f.oneof in done:
                    continue
                done.add(f.oneof)
                ov = deref(val.f[sd.index(f.oneof)])
                want = d.get(f.oneof)
                if want is None:
                    self.need(ov.discr == 0, f'{where}{full}.{f.oneof}: oneof should be unset')
                    continue
                self.need(ov.discr == 1, f'{where}{full}.{f.oneof}: oneof should be set to {want[0]}')
                if ov.discr != 1:
                    continue
                en = deref(ov.f[0])
                self.need(en.vname == camel(want[0]), f'{where}{full}.{f.oneof}: arm {en.vname}, expected {camel(want[0])}')
                if en.vname == camel(want[0]):
                    ff = m.by_name(want[0])
                    self.one(eng, ff, en.f[0], want[1], w)
                continue
            v = deref(val.f[sd.index(f.name)])
            want = d.get(f.name)
            if f.label == 'map':
                kt, vt = f.map_kv
                want = want or []
                self.need(len(v.entries) == len(want), f'{w}: {len(v.entries)} map entries, expected {len(want)}')
                for k, x in want:
                    hit = [e for e in v.entries if (deref(e[0]).s if isinstance(deref(e[0]), RString) else deref(e[0])) == k]
                    if len(hit) != 1:
                        self.need(False, f'{w}: key {k!r} missing after decoding')
                        continue
                    if isinstance(vt, tuple) and vt[0] == 'msg':
                        self.value(eng, vt[1], hit[0][1], x, w + '/')
                    else:
                        self.need(peq(kind_of(vt), hit[0][1], x), f'{w}[{k!r}]: value differs after decoding')
            elif f.label == 'repeated':
                want = want or []
                self.need(len(v.items) == len(want), f'{w}: {len(v.items)} elements, expected {len(want)}')
                for a, x in zip(v.items, want):
                    self.one(eng, f, a, x, w)
            elif f.kind == 'msg' or f.label == 'optional':
                if want is None:
                    self.need(v.discr == 0, f'{w}: should be None')
                else:
                    self.need(v.discr == 1, f'{w}: should be Some')
                    if v.discr == 1:
                        self.one(eng, f, v.f[0], want, w)
            else:
                self.need(peq(kind_of(f.ty), v, want), f'{w}: value differs after decoding')

    def one(self, eng, f, a, x, w):
        if f.kind == 'msg':
            self.value(eng, f.ref, a, x, w + '/')
        else:
            self.need(peq(kind_of(f.ty), a, x), f'{w}: value differs after decoding')

    def verdict(self):
        return b_and(*self.conds) if self.conds else True


# ----------------------------------------------------------------------------- an independent, schema-driven encoder (records)

def iv(kind, v):
    """interpreter value of a dict leaf"""
    return RString(v) if isinstance(v, str) else v


def foreign_records(schema, full, d, variant):
    """what a conforming encoder other than prost may put on the wire for message d.
    variant 0: ascending field numbers, packed repeated scalars, explicit default scalars, explicit map keys/values.
    variant 1: descending field numbers, unknown fields interleaved, unpacked repeated scalars, map value before key."""
    m = schema.messages[full]
    out = []
    fields = sorted(m.fields, key=lambda f: f.number, reverse=bool(variant))
    for f in fields:
        rs = []
        if f.oneof:
            ov = d.get(f.oneof)
            if ov is not None and ov[0] == f.name:
                rs.append(one_record(schema, f, ov[1], variant))
        else:
            v = d.get(f.name)
            if f.label == 'map':
                kt, vt = f.map_kv
                for k, x in (v or []):
                    kr = (1, wt_of(kind_of(kt)), kind_of(kt), iv(kt, k))
                    if isinstance(vt, tuple) and vt[0] == 'msg':
                        vr = (2, 2, 'message', foreign_records(schema, vt[1], x, variant))
                    else:
                        vr = (2, wt_of(kind_of(vt)), kind_of(vt), iv(vt, x))
                    rs.append((f.number, 2, 'map-entry', [vr, kr] if variant else [kr, vr]))
            elif f.label == 'repeated':
                k = kind_of(f.ty) if f.kind != 'msg' else None
                if f.kind == 'msg':
                    rs += [one_record(schema, f, x, variant) for x in (v or [])]
                elif k in NUMERIC and not variant:
                    if v:
                        rs.append((f.number, 2, 'packed-' + k, [iv(k, x) for x in v]))
                elif k in NUMERIC and len(v or []) >= 2:
                    # a mix the spec allows: one unpacked element followed by a packed run
                    rs.append((f.number, wt_of(k), k, iv(k, v[0])))
                    rs.append((f.number, 2, 'packed-' + k, [iv(k, x) for x in v[1:]]))
                else:
                    rs += [(f.number, wt_of(k), k, iv(k, x)) for x in (v or [])]
            elif f.kind == 'msg' or f.label == 'optional':
                if v is not None:
                    rs.append(one_record(schema, f, v, variant))
            else:
                rs.append(one_record(schema, f, v, variant))      # explicit (possibly default) singular scalar
        out += rs
        if variant:
            out.append((unknown_number(m, len(out)), [0, 1, 2, 5][len(out) % 4], 'unknown', None))
    return out


def unknown_number(m, salt):
    used = {f.number for f in m.fields}
    cands = [n for n in range(1, max(used | {0}) + 3) if n not in used] + [1000, 536870911]
    return cands[salt % len(cands)]


def one_record(schema, f, v, variant):
    if f.kind == 'msg':
        return (f.number, 2, 'message', foreign_records(schema, f.ref, v, variant))
    k = kind_of(f.ty)
    return (f.number, wt_of(k), k, iv(k, v))


# ----------------------------------------------------------------------------- concretisation (witnesses, validation)

def concretize(schema, full, d, model):
    m = schema.messages[full]
    out = {}

    def leaf(ty, v):
        k = kind_of(ty)
        if k == 'double':
            return fv_to_float(v, model)
        if k == 'string':
            return v
        if k == 'bool':
            return v if isinstance(v, bool) else z3.is_true(model.eval(v, model_completion=True))
        if isinstance(v, int):
            n = v
        else:
            ev = model.eval(v)
            # leaves the counterexample does not constrain get a distinctive non-zero value
            n = ev.as_long() if z3.is_bv_value(ev) else (3 + sum(map(ord, str(v))) % 5 if k != 'int32' else 1)
        if k == 'int32':
            n &= (1 << 32) - 1
            return n - (1 << 32) if n >= 1 << 31 else n
        if k == 'int64':
            n &= (1 << 64) - 1
            return n - (1 << 64) if n >= 1 << 63 else n
        return n

    def val(f, v):
        return concretize(schema, f.ref, v, model) if f.kind == 'msg' else leaf(f.ty, v)
    for f in m.fields:
        if f.oneof:
            if f.oneof not in out:
                ov = d.get(f.oneof)
                out[f.oneof] = None if ov is None else (ov[0], val(m.by_name(ov[0]), ov[1]))
            continue
        v = d.get(f.name)
        if f.label == 'map':
            kt, vt = f.map_kv
            out[f.name] = [(k, concretize(schema, vt[1], x, model) if isinstance(vt, tuple) and vt[0] == 'msg' else leaf(vt, x)) for k, x in (v or [])]
        elif f.label == 'repeated':
            out[f.name] = [val(f, x) for x in (v or [])]
        elif f.kind == 'msg' or f.label == 'optional':
            out[f.name] = None if v is None else val(f, v)
        else:
            out[f.name] = leaf(f.ty, v)
    return out


def norm(x):
    """order-insensitive form of decoded dicts (map entries sorted)"""
    if isinstance(x, dict):
        return {k: norm(v) for k, v in x.items()}
    if isinstance(x, tuple):
        return tuple(norm(v) for v in x)
    if isinstance(x, list):
        ys = [norm(v) for v in x]
        if ys and all(isinstance(y, tuple) and len(y) == 2 and not isinstance(y[0], (dict, list, tuple)) for y in ys):
            try:
                return sorted(ys, key=lambda p: (str(type(p[0])), p[0]))
            except TypeError:
                return ys
        return ys
    if isinstance(x, float) and x == 0:
        return 0.0
    return x


def records_to_bytes(recs):
    """byte form of abstract records (used only to validate the record model against prost's real output)"""
    V = protoschema._varint
    out = bytearray()

    def scalar(kind, p):
        p = deref(p)
        if kind == 'double':
            return struct.pack('<d', fv_to_float(p))
        if kind == 'string':
            b = (p.s if isinstance(p, RString) else p).encode()
            return V(len(b)) + b
        if kind == 'bool':
            return V(1 if p else 0)
        return V(int(p))
    for tag, wt, kind, p in recs:
        out += V((tag << 3) | wt)
        if kind in ('message', 'map-entry'):
            b = records_to_bytes(p)
            out += V(len(b)) + b
        elif kind.startswith('packed-'):
            b = b''.join(scalar(kind[7:], x) for x in p)
            out += V(len(b)) + b
        else:
            out += scalar(kind, p)
    return bytes(out)


# ----------------------------------------------------------------------------- native values through `{:?}`

class DebugParser:
    """Rust `{:?}` output of the generated messages -> python tree (structs as dict, Some(x) -> ('Some', x), variants as (name, payload))"""

    def __init__(self, s):
        self.s, self.i = s, 0

    def ws(self):
        while self.i < len(self.s) and self.s[self.i] in ' \n':
            self.i += 1

    def eat(self, ch):
        self.ws()
        if self.s[self.i] != ch:
            raise ValueError(f'expected {ch!r} at {self.i}: {self.s[self.i:self.i + 30]!r}')
        self.i += 1

    def peek(self):
        self.ws()
        return self.s[self.i] if self.i < len(self.s) else ''

    def value(self):
        c = self.peek()
        if c == '"':
            return self.string()
        if c == '[':
            self.i += 1
            out = []
            while self.peek() != ']':
                out.append(self.value())
                if self.peek() == ',':
                    self.i += 1
            self.i += 1
            return out
        if c == '{':
            self.i += 1
            out = []
            while self.peek() != '}':
                k = self.value()
                self.eat(':')
                out.append((k, self.value()))
                if self.peek() == ',':
                    self.i += 1
            self.i += 1
            return ('map', out)
        m = re.compile(r'-?[A-Za-z_0-9.+]+(?:e-?\d+)?').match(self.s, self.i)
        if not m:
            raise ValueError(f'unexpected {self.s[self.i:self.i + 30]!r}')
        tok = m.group(0)
        self.i = m.end()
        if re.fullmatch(r'-?\d+', tok):
            return int(tok)
        if tok in ('inf', '-inf', 'NaN') or re.fullmatch(r'-?\d[\d.]*(e-?\d+)?', tok):
            return float(tok.replace('NaN', 'nan'))
        if tok in ('true', 'false'):
            return tok == 'true'
        c = self.peek()
        if c == '{':
            self.i += 1
            d = {}
            while self.peek() != '}':
                mk = re.compile(r'[A-Za-z_0-9#]+').match(self.s, self.i)
                self.i = mk.end()
                self.eat(':')
                d[mk.group(0).replace('r#', '')] = self.value()
                if self.peek() == ',':
                    self.i += 1
            self.i += 1
            return ('struct', tok, d)
        if c == '(':
            self.i += 1
            xs = []
            while self.peek() != ')':
                xs.append(self.value())
                if self.peek() == ',':
                    self.i += 1
            self.i += 1
            return (tok, xs[0] if len(xs) == 1 else xs)
        return (tok, None)

    def string(self):
        self.i += 1
        out = []
        while self.s[self.i] != '"':
            ch = self.s[self.i]
            if ch == '\\':
                nx = self.s[self.i + 1]
                if nx == 'u':
                    e = self.s.index('}', self.i)
                    out.append(chr(int(self.s[self.i + 3:e], 16)))
                    self.i = e + 1
                    continue
                out.append({'n': '\n', 't': '\t', 'r': '\r', '0': '\0', "'": "'", '"': '"', '\\': '\\'}[nx])
                self.i += 2
                continue
            out.append(ch)
            self.i += 1
        self.i += 1
        return ''.join(out)


def debug_differs(schema, full, tree, d):
    """first difference between a parsed `{:?}` tree of a native message and the message dict, or None"""
    m = schema.messages[full]
    if isinstance(tree, tuple) and len(tree) == 2 and tree[1] is None and not m.fields:
        return None          # field-less message prints as its bare name
    if not (isinstance(tree, tuple) and tree[0] == 'struct'):
        return f'{full}: not a struct: {tree!r}'
    fields = tree[2]

    def scalar(ty, t, v, w):
        k = kind_of(ty)
        if isinstance(ty, tuple) and ty[0] == 'enum':
            e = schema.enums[ty[1]]
            by_num = {num: name for name, num in e.values.items()}
            want = (camel_variant(by_num[v], ty[1].split('.')[-1]), None) if v in by_num else v
            return None if t == want else f'{w}: native {t!r}, expected {want!r}'
        if k == 'double':
            ok = isinstance(t, (int, float)) and (float(t) == float(v) or (t != t and v != v))
        elif k == 'bool':
            ok = isinstance(t, bool) and t == bool(v)
        elif k == 'string':
            ok = t == v
        else:
            ok = isinstance(t, int) and not isinstance(t, bool) and t == v
        return None if ok else f'{w}: native {t!r}, expected {v!r}'

    def one(f, t, v, w):
        return debug_differs(schema, f.ref, t, v) if f.kind == 'msg' else scalar(f.ty, t, v, w)
    seen = set()
    for f in m.fields:
        w = f'{full}.{f.name}'
        if f.oneof:
            if f.oneof in seen:
                continue
            seen.add(f.oneof)
            t, want = fields.get(f.oneof), d.get(f.oneof)
            if want is None:
                if t != ('None', None):
                    return f'{full}.{f.oneof}: native {t!r}, expected None'
                continue
            if not (isinstance(t, tuple) and t[0] == 'Some' and isinstance(t[1], tuple) and t[1][0] == camel(want[0])):
                return f'{full}.{f.oneof}: native {t!r}, expected arm {camel(want[0])}'
            r = one(m.by_name(want[0]), t[1][1], want[1], w)
            if r:
                return r
            continue
        t, v = fields.get(f.name), d.get(f.name)
        if t is None:
            return f'{w}: missing in native value'
        if f.label == 'map':
            kt, vt = f.map_kv
            if not (isinstance(t, tuple) and t[0] == 'map') or len(t[1]) != len(v or []):
                return f'{w}: native {t!r}, expected {len(v or [])} entries'
            got = dict(t[1])
            for k, x in (v or []):
                if k not in got:
                    return f'{w}: key {k!r} missing natively'
                r = debug_differs(schema, vt[1], got[k], x) if isinstance(vt, tuple) and vt[0] == 'msg' else scalar(vt, got[k], x, w)
                if r:
                    return r
        elif f.label == 'repeated':
            if not isinstance(t, list) or len(t) != len(v or []):
                return f'{w}: native {t!r}, expected {v!r}'
            for a, x in zip(t, v or []):
                r = one(f, a, x, w)
                if r:
                    return r
        elif f.kind == 'msg' or f.label == 'optional':
            if v is None:
                if t != ('None', None):
                    return f'{w}: native {t!r}, expected None'
            else:
                if not (isinstance(t, tuple) and t[0] == 'Some'):
                    return f'{w}: native {t!r}, expected Some'
                r = one(f, t[1], v, w)
                if r:
                    return r
        else:
            r = scalar(f.ty, t, v, w)
            if r:
                return r
    return None


# ----------------------------------------------------------------------------- harnesses

def msg_harness(chk, full, profs):
    eng = chk.eng
    schema = chk.schema
    m = schema.messages[full]
    ty = eng.printed(rust_path(full))

    def h(P):
        models = P.it.models
        prof = profs[P.choose(len(profs))] if len(profs) > 1 else profs[0]
        gen = Gen(chk, P)
        d = gen.message(full, prof, True)
        val = chk.conv.from_dict(d, full)

        def witness(model, what='wire'):
            cd = concretize(schema, full, d, model)
            case = {'op': 'wire', 'type': full, 'hex': chk.hexdict(cd, full)}

            def judge(res):
                if 'ok' not in res:
                    return True
                ok = res['ok']
                if not ok['stable'] or not ok['clear_is_default']:
                    return True
                if norm(chk.unhex(ok['hex'], full)) != norm(chk.unhex(case['hex'], full)):
                    return True
                # the value the SDK user sees after decoding (through `{:?}`) against what was encoded
                return debug_differs(schema, full, DebugParser(ok['debug']).value(), cd) is not None
            return case, judge, f'{full} {prof}: bytes of an independent schema-driven encoder for {cd} are not read back / re-emitted with the same content'
        # 1. encoder output against the schema
        buf = WireBuf()
        P.it.run_body(models._msg_body('encode_raw', ty), [ref_to(val), ref_to(buf)])
        mt = Matcher(schema)
        mt.records(full, buf.records, d)
        if m.fields:
            P.cover('emits-records', len(buf.records) > 0)
        P.cover('emits-nothing', len(buf.records) == 0)
        P.require('encoder-follows-schema', mt.verdict(), lambda mdl: witness(mdl)[:2] + ('; '.join(mt.why[:3]) or witness(mdl)[2],))
        # 2. decode(encode(m)) == m
        back = models.default_of(ty)
        r = models._merge_message_into(ty, ref_to(back), buf.records)
        if r.vname != 'Ok':
            P.fail('own-encoding-decodes', witness)
        else:
            mt2 = Matcher(schema)
            mt2.value(eng, full, back, d)
            P.require('round-trip-identity', mt2.verdict(), lambda mdl: witness(mdl)[:2] + ('; '.join(mt2.why[:3]) or witness(mdl)[2],))
        # 3. bytes of another conforming encoder (two layouts, unknown fields) decode to the same content
        for variant in (0, 1):
            recs = foreign_records(schema, full, d, variant)
            tgt = models.default_of(ty)
            wb_skipped = []
            r = models._merge_message_into(ty, ref_to(tgt), recs, wb_skipped)
            if r.vname != 'Ok':
                P.fail(f'foreign-encoding-decodes-v{variant}', witness)
                continue
            mt3 = Matcher(schema)
            mt3.value(eng, full, tgt, d)
            n_unknown = sum(1 for q in recs if q[2] == 'unknown')
            mt3.need(sum(1 for q in wb_skipped if q[2] == 'unknown') == n_unknown, f'{full}: unknown fields not skipped')
            mt3.need(all(q[2] == 'unknown' for q in wb_skipped), f'{full}: a schema field is skipped as unknown: {[q[0] for q in wb_skipped if q[2] != "unknown"]}')
            P.require(f'foreign-encoding-same-content-v{variant}', mt3.verdict(),
                      lambda mdl, mt3=mt3: witness(mdl)[:2] + ('; '.join(mt3.why[:3]) or witness(mdl)[2],))
        # 4. clear() gives the default message, which is the all-unset message
        P.it.run_body(models._msg_body('clear', ty, True), [ref_to(val)])
        mt4 = Matcher(schema)
        empty = Gen(chk).message(full, ('empty',), False)
        for f in m.fields:
            if not f.oneof and f.label == '' and f.kind != 'msg':
                empty[f.name] = {'double': ZERO, 'string': '', 'bool': False}.get(kind_of(f.ty), 0)
        mt4.value(eng, full, val, empty)
        mt4.value(eng, full, models.default_of(ty), empty)
        P.require('clear-and-default-are-empty', mt4.verdict(), witness)
    return h


def enum_harness(chk, efull):
    eng = chk.eng
    e = chk.schema.enums[efull]
    parts = efull.split('.')[2:]
    rpath = '::'.join(['v1'] + [snake(p) for p in parts[:-1]] + [camel(parts[-1])])
    ety = eng.printed(rpath)
    ed = eng.layouts.enums[rpath]
    by_num = {num: name for name, num in e.values.items()}
    try_from = eng.find_body(lambda b: b.name.endswith('::try_from') and b.span and b.span[0].endswith('ommx.v1.rs') and
                             norm_ty(b.ret_ty).startswith(f'std::result::Result<{ety},') and b.param_tys == ['i32'])
    as_str = eng.find_body(lambda b: b.name.endswith('::as_str_name') and norm_ty(b.param_tys[0]) == '&' + ety)
    from_str = eng.find_body(lambda b: b.name.endswith('::from_str_name') and norm_ty(b.ret_ty) == f'std::option::Option<{ety}>')
    is_valid = eng.find_body(lambda b: b.name.endswith('::is_valid') and b.span == try_from.span)

    def witness(model):
        case = {'op': 'enum_table'}

        def judge(res):
            rows = res.get('ok', {}).get(efull)
            if rows is None:
                return True
            for i, name, back in rows:
                if by_num.get(i) != name or (name is not None and back != i):
                    return True
            return False
        return case, judge, f'{efull}: numbers/names differ from the schema {e.values}'

    def h(P):
        i = z3.BitVec('i', 32)
        r = P.it.run_body(try_from, [i])
        valid = b_or(*[i == z3.BitVecVal(n, 32) for n in by_num])
        v2 = P.it.run_body(is_valid, [i])
        P.require('is_valid-iff-schema-value', z3bool(v2) == z3bool(valid), witness)
        if r.vname == 'Ok':
            P.cover('valid')
            var = deref(r.f[0])
            P.require('variant-number', i == z3.BitVecVal(var.discr, 32), witness)
            name = P.it.run_body(as_str, [ref_to(var)])
            name = deref(name)
            name = name.s if isinstance(name, RString) else name
            P.require('variant-name', by_num.get(var.discr) == name, witness)
            back = P.it.run_body(from_str, [name])
            P.require('name-parses-back', back.discr == 1 and deref(back.f[0]).discr == var.discr, witness)
            # the Rust variant carries the schema name (prefix stripped, camel case): e.g. KIND_BINARY -> Binary
            P.require('rust-variant-name', var.vname == camel_variant(by_num.get(var.discr, ''), parts[-1]), witness)
        else:
            P.cover('invalid')
            P.require('rejected-only-outside-schema', b_not(valid), witness)
        none = P.it.run_body(from_str, ['NOT_A_NAME'])
        P.require('unknown-name-is-none', none.discr == 0, witness)
        P.require('variant-count', len(ed.variants) == len(by_num), witness)
    return h


def camel_variant(name, enum_name):
    pre = snake(enum_name).upper() + '_'
    if name.startswith(pre):
        name = name[len(pre):]
    return ''.join(w[:1].upper() + w[1:].lower() for w in name.split('_'))


def accessor_harness(chk):
    """enum-typed fields: the typed getter maps the stored i32 to the schema's value (unknown numbers to the default), the setter stores the number"""
    eng = chk.eng
    schema = chk.schema
    todo = []
    for full, m in schema.messages.items():
        for f in m.fields:
            if isinstance(f.ty, tuple) and f.ty[0] == 'enum' and not f.oneof and f.label == '':
                todo.append((full, f))

    def h(P):
        full, f = todo[P.choose(len(todo))]
        ty = eng.printed(rust_path(full))
        e = schema.enums[f.ty[1]]
        nums = set(e.values.values())
        getter = eng.find_body(lambda b: b.name.split('::')[-1] == f.name and b.span and b.span[0].endswith('ommx.v1.rs') and
                               len(b.param_tys) == 1 and norm_ty(b.param_tys[0]) == '&' + ty)
        setter = eng.find_body(lambda b: b.name.split('::')[-1] == 'set_' + f.name and b.span and b.span[0].endswith('ommx.v1.rs') and
                               norm_ty(b.param_tys[0]) == '&mut ' + ty)
        d = Gen(chk, P).message(full, ('empty',), True)
        i = d[f.name]
        val = chk.conv.from_dict(d, full)
        got = deref(P.it.run_body(getter, [ref_to(val)]))
        P.cover('known' if got.discr != 0 else 'default-or-zero')
        P.require('getter', z3.If(z3bool(b_or(*[i == z3.BitVecVal(n, 32) for n in nums])), i, z3.BitVecVal(0, 32)) == z3.BitVecVal(got.discr, 32))
        P.it.run_body(setter, [ref_to(val), got])
        sd = eng.layouts.structs[rust_path(full)]
        stored = deref(val.f[sd.index(f.name)])
        P.require('setter', peq('int32', stored, got.discr))
    return h, len(todo)


# ----------------------------------------------------------------------------- validation of the record model against prost

def validate(chk):
    eng, schema = chk.eng, chk.schema
    rng = chk.rng
    names = list(schema.messages)
    n = 3 if chk.tier == 'quick' else 12
    for full in names:
        ty = eng.printed(rust_path(full))
        m = schema.messages[full]
        for t in range(n):
            prof = rng.choice(profiles(m, chk.tier))
            d = Gen(chk).message(full, prof, False)
            single_maps(schema, full, d)
            cd = concretize(schema, full, d, None)
            case = {'op': 'wire', 'type': full, 'hex': chk.hexdict(cd, full)}

            def py(it, d=d, ty=ty, full=full):
                val = chk.conv.from_dict(d, full)
                buf = WireBuf()
                it.run_body(it.models._msg_body('encode_raw', ty), [ref_to(val), ref_to(buf)])
                back = it.models.default_of(ty)
                r = it.models._merge_message_into(ty, ref_to(back), foreign_records(schema, full, d, 0))
                return (records_to_bytes(buf.records).hex(), r.vname == 'Ok' and norm(chk.conv.to_dict(back, full)) == norm(concretize(schema, full, d, None)))

            def nat(res, case=case, full=full):
                if 'ok' not in res:
                    return ('decode error', False)
                return (res['ok']['hex'], res['ok']['stable'] and res['ok']['len_ok'] and norm(chk.unhex(res['ok']['hex'], full)) == norm(chk.unhex(case['hex'], full)))
            chk.validate('wire ' + full, py, case, nat)
    # enum tables natively
    res = chk.replay.run({'op': 'enum_table'})
    for efull, e in schema.enums.items():
        by_num = {num: name for name, num in e.values.items()}
        rows = res.get('ok', {}).get(efull, [])
        if not rows or any(by_num.get(i) != name or (name is not None and back != i) for i, name, back in rows):
            chk.validation_mismatch.append({'what': 'enum table ' + efull, 'native': rows, 'schema': e.values})
        else:
            chk.validated += 1


def single_maps(schema, full, d):
    """keep at most one entry per map (prost's HashMap order is not reproducible byte-for-byte)"""
    m = schema.messages[full]
    for f in m.fields:
        if f.oneof:
            ov = d.get(f.oneof)
            if ov is not None and ov[0] == f.name and f.kind == 'msg':
                single_maps(schema, f.ref, ov[1])
            continue
        v = d.get(f.name)
        if v is None:
            continue
        if f.label == 'map':
            kt, vt = f.map_kv
            d[f.name] = v[1:2] if len(v) > 1 else v
            if isinstance(vt, tuple) and vt[0] == 'msg':
                for k, x in d[f.name]:
                    single_maps(schema, vt[1], x)
        elif f.kind == 'msg':
            for x in (v if f.label == 'repeated' else [v]):
                single_maps(schema, f.ref, x)


def build(chk):
    schema = chk.schema
    chk.bounds = {
        'message types': f'all {len(schema.messages)} message types and {len(schema.enums)} enum types of proto/ommx/v1/*.proto, each as the message under test',
        'presence patterns': ('thorough tier: additionally every pair of such fields set together; ' if chk.tier == 'thorough' else '') + 'per message: everything set (one run per oneof arm), nothing set, each optional/repeated/map/oneof/message field alone (each arm), each one missing — not the full cross product '
                             '(the derive output handles fields one after another, independently)',
        'scalar leaves of the message under test': 'solver variables: u64/i64 as 64-bit vectors, enum/i32 fields as 32-bit vectors (all 2^32 numbers, known or not), bool, double as an arbitrary real or +-inf; '
                                                     'strings by explored choice among "", ascii, non-ascii',
        'sizes': f'repeated fields 0 or {3 if chk.tier == "thorough" else 2} elements, maps 0 or 2 entries (keys: the default key and one other), nested messages are concrete fully-populated samples (depth <= 3; each type is itself a message under test)',
        'foreign encodings': 'two layouts per value: ascending field order / packed / explicit defaults, and descending order / one unpacked element + packed run / map value before key / an unknown field of every wire type after each field',
        'enum numbers': 'try_from, is_valid over every i32',
    }
    chk.assumptions += [
        'the external crates prost and bytes are trusted for the byte level (varint, fixed64, length prefixes, UTF-8 check, recursion limit): prost::encoding::* is modelled as emitting/consuming abstract records '
        '(field number, wire type, kind, payload); the model is compared byte-for-byte with prost on concrete messages of every type each run',
        'NaN payloads, -0.0 (prost omits it like +0.0; the R-model has no signed zero) and the exact byte length (encoded_len) are outside the claim',
        'the Python bindings (python/ommx/ommx/v1/*_pb2.py) and the regeneration tools (rust/protogen, buf) are not Rust code this engine can execute: outside the claim',
        'readability of artifacts written by earlier releases is represented only by the schema comparison (a field number or type that still matches the published schema); no archive is opened here',
    ]
    names = list(schema.messages)
    for full in names:
        m = schema.messages[full]
        profs = profiles(m, chk.tier)
        chk.harness('msg:' + full.replace('ommx.v1.', ''), msg_harness(chk, full, profs), regions=(['emits-records'] if m.fields else []) + ['emits-nothing'],
                    max_paths=6000, step_budget=2000000)
    for efull in schema.enums:
        chk.harness('enum:' + efull.replace('ommx.v1.', ''), enum_harness(chk, efull), regions=['valid', 'invalid'], max_paths=200)
    ah, n = accessor_harness(chk)
    chk.harness('enum-accessors', ah, regions=['known', 'default-or-zero'], max_paths=2000, min_paths=n)
    chk.validation('wire', validate)


if __name__ == '__main__':
    main('C07', build)
