"""C15 — sense-aware operations select the right optimum (engine M)."""
import itertools
import z3
from fractions import Fraction
from .common import *
from .oracles import *
from .shapes import *
from .instances import *
from .c02 import read_monos, sym_canon
from .c03 import dom, build_function_choose
from mirsym.interp import deep_clone, f_cmp

MSGI, MSGSS = 'ommx.v1.Instance', 'ommx.v1.SampleSet'
SAMPLE_IDS = [3, 7, 1, 9]


def partitions(xs):
    if not xs:
        yield []
        return
    first, rest = xs[0], xs[1:]
    for p in partitions(rest):
        for i in range(len(p)):
            yield p[:i] + [[first] + p[i]] + p[i + 1:]
        yield [[first]] + p


def build(chk):
    eng = chk.eng
    asmin = eng.method('as_minimization_problem', first_param='&mut v1::Instance')
    bf = eng.method('best_feasible', first_param='&SampleSet')
    bfu = eng.method('best_feasible_unrelaxed', first_param='&SampleSet')
    bfid = eng.method('best_feasible_id', first_param='&SampleSet')
    bfuid = eng.method('best_feasible_unrelaxed_id', first_param='&SampleSet')
    B, rd = Build(chk), Rd(chk)
    NMAX = 3 if chk.tier == 'quick' else 4
    chk.bounds = {'as_minimization_problem': 'objective absent/constant/linear/quadratic/polynomial (<= 3 terms, every id pattern over {0,1,2}), both senses, applied once and twice',
                  'sample sets': f'1..{NMAX} samples (the property quantifies to 8), objective values symbolic reals (ties are solver cases), every feasibility pattern of both tables, '
                  'both senses, legacy layout (feasible + deprecated feasible_unrelaxed) and current layout (feasible_relaxed + feasible), every grouping of samples into SampledValues entries'}
    chk.assumptions += ['R-model; NaN objectives are outside the claim', 'sense in {minimize, maximize} (valid messages)', 'library models trusted and validated natively each run']

    # ---------------------------------------------------------------- (a) as_minimization_problem
    def mk_min(oshape):
        def h(P):
            obj = build_function_choose(P, oshape, lambda n: dom(P, n)) if oshape else None
            sense = [MINIMIZE, MAXIMIZE][P.choose(2)]
            g = build_function_choose(P, ('linear', 1), lambda n: dom(P, n))
            spec = Inst(sense=sense, objective=obj, vars=[Var(0, 1), Var(1, 2, (ZERO, PINF)), Var(2, 3)], cons=[Con(4, LE, g, name='c')],
                        removed=[Rem(Con(5, EQ, (deep_clone(g[0]), g[1])))])
            inst = B.instance(spec)
            orig = deep_clone(inst)

            def witness(model):
                idict = chk.conv.to_dict(B.instance(spec), MSGI, model)
                case = {'op': 'as_minimization', 'instance': chk.hexdict(idict, MSGI)}
                want = canon_poly(fn_monomials(idict['objective']))
                if idict['sense'] == 2:
                    want = {k: -v for k, v in want.items()}

                def judge(res):
                    if 'ok' not in res:
                        return True
                    for key in ('once', 'twice'):
                        d = chk.unhex(res['ok'][key], MSGI)
                        got = canon_poly(fn_monomials(d['objective']))
                        if d['sense'] != 1 or got != want or d['constraints'] != idict['constraints'] or d['decision_variables'] != idict['decision_variables']:
                            return True
                    return False
                return case, judge, f'as_minimization_problem on {idict}'
            conj = []
            for rounds in (1, 2):
                try:
                    P.it.run_body(asmin, [ref_to(inst)])
                except RustPanic:
                    P.fail('no-panic', witness)
                    return
                out = rd.instance(inst)
                conj.append(scalar_eq(out['sense'], MINIMIZE))
                exp = sym_canon(obj[1]) if obj else {}
                if sense == MAXIMIZE:
                    exp = {k: r_neg(v) for k, v in exp.items()}
                got = {}
                if out['objective'] is not None:
                    for ids, cf in read_monos(chk, out['objective'])[0]:
                        k = tuple(sorted(ids))
                        got[k] = r_add(got.get(k, Fraction(0)), cf.r)
                for k in set(got) | set(exp):
                    conj.append(r_cmp('eq', got.get(k, Fraction(0)), exp.get(k, Fraction(0))))
                for fld in ('constraints', 'removed_constraints', 'decision_variables', 'decision_variable_dependency'):
                    conj.append(val_eq(eng.field(inst, 'v1::Instance', fld), eng.field(orig, 'v1::Instance', fld)))
            P.require('minimisation-form', b_and(*conj), witness)
        return h
    for sh in [None, ('constant',), ('linear', 2), ('quadratic', 1, 1), ('quadratic', 2, None), ('polynomial', (1, 2)), ('polynomial', (0, 3))]:
        chk.harness(f'as_minimization:{sh}', mk_min(sh))

    # ---------------------------------------------------------------- (b) best feasible sample
    def sampled_values(groups):
        return eng.struct('v1::SampledValues', entries=RVec([eng.struct('v1::sampled_values::SampledValuesEntry', value=v, ids=RVec(list(ids))) for v, ids in groups]))

    def boolmap(d):
        return RMap('hash', False, [[k, v] for k, v in d.items()])

    def mk_best(n, layout, unrelaxed, want_solution):
        ids = SAMPLE_IDS[:n]
        parts = list(partitions(ids))

        def h(P):
            part = parts[P.choose(len(parts))]
            sense = [MINIMIZE, MAXIMIZE][P.choose(2)]
            vals = [P.real(f'v{i}') for i in range(len(part))]
            objv = {}
            for v, grp in zip(vals, part):
                for i in grp:
                    objv[i] = v
            ta = {i: bool(P.choose(2)) for i in ids}     # feasible for the remaining (active) constraints
            tb = {i: (ta[i] and bool(P.choose(2))) for i in ids}     # feasible for all constraints
            if layout == 'legacy':
                fields = dict(feasible=boolmap(ta), feasible_unrelaxed=boolmap(tb), feasible_relaxed=boolmap({}))
            else:
                fields = dict(feasible=boolmap(tb), feasible_unrelaxed=boolmap({}), feasible_relaxed=boolmap(ta))
            ss = eng.struct('v1::SampleSet', objectives=Some(sampled_values(list(zip(vals, part)))), decision_variables=RVec([]), constraints=RVec([]), sense=sense, **fields)
            table = tb if unrelaxed else ta
            S = [i for i in ids if table[i]]
            body = {(False, False): bfid, (True, False): bfuid, (False, True): bf, (True, True): bfu}[(unrelaxed, want_solution)]

            def witness(model):
                sd = chk.conv.to_dict(ss, MSGSS, model)
                case = {'op': 'best_feasible', 'sample_set': chk.hexdict(sd, MSGSS), 'unrelaxed': unrelaxed}
                ov = {i: valconv.fv_to_fraction(objv[i], model) for i in ids}

                def judge(res):
                    if not S:
                        return 'err' not in res
                    if 'ok' not in res:
                        return True
                    r = res['ok']['id']
                    if r not in S:
                        return True
                    better = (lambda a, b: a < b) if sense == MINIMIZE else (lambda a, b: a > b)
                    return any(better(ov[j], ov[r]) for j in S)
                return case, judge, f'best_feasible{"_unrelaxed" if unrelaxed else ""} on {sd}'
            try:
                res = P.it.run_body(body, [ref_to(ss)])
            except RustPanic:
                P.fail('no-panic', witness)
                return
            if res.vname != 'Ok':
                P.cover('none-feasible')
                P.require('err-iff-none-feasible', not S, witness)
                return
            P.cover('found')
            if not S:
                P.fail('err-iff-none-feasible', witness)
                return
            if want_solution:
                sol = rd.solution(res.f[0])
                # identify the returned sample through its objective and flags; it must be get(id) of an optimal feasible id
                cands = []
                for i in S:
                    nobetter = b_and(*[b_not(f_cmp('lt' if sense == MINIMIZE else 'gt', objv[j], objv[i])) for j in S])
                    cands.append(b_and(nobetter, feq(sol['objective'], objv[i]), z3bool(sol['feasible_relaxed']) == z3bool(ta[i]),
                                       z3bool(sol['feasible']) == z3bool(tb[i])))
                P.require('best-solution', b_or(*cands), witness)
            else:
                rid = res.f[0]
                ok = rid in S
                if ok:
                    ok = b_and(*[b_not(f_cmp('lt' if sense == MINIMIZE else 'gt', objv[j], objv[rid])) for j in S])
                P.require('best-id', ok, witness)
        return h
    for n in range(1, NMAX + 1):
        for layout in ('legacy', 'current'):
            for unrelaxed in (False, True):
                chk.harness(f'best_feasible{"_unrelaxed" if unrelaxed else ""}_id:{n}-samples/{layout}', mk_best(n, layout, unrelaxed, False), regions=['found', 'none-feasible'])
    for layout in ('legacy', 'current'):
        for unrelaxed in (False, True):
            chk.harness(f'best_feasible{"_unrelaxed" if unrelaxed else ""}:2-samples/{layout}', mk_best(2, layout, unrelaxed, True), regions=['found', 'none-feasible'])
    chk.validation('best_feasible', lambda c: validate(c, bfid, bfuid))


def validate(chk, bfid, bfuid):
    rng = chk.rng
    n = 80 if chk.tier == 'quick' else 500
    for t in range(n):
        k = rng.randint(1, 4)
        ids = SAMPLE_IDS[:k]
        part = rng.choice(list(partitions(ids)))
        vals = [rng.randint(-3, 3) / 2 for _ in part]
        ta = {i: rng.random() < .6 for i in ids}
        tb = {i: ta[i] and rng.random() < .6 for i in ids}
        legacy = rng.random() < .5
        unrelaxed = rng.random() < .5
        sd = {'objectives': {'entries': [{'value': v, 'ids': g} for v, g in zip(vals, part)]}, 'decision_variables': [], 'constraints': [],
              'feasible': list((ta if legacy else tb).items()), 'feasible_unrelaxed': list(tb.items()) if legacy else [],
              'feasible_relaxed': [] if legacy else list(ta.items()), 'sense': rng.choice([1, 2])}
        case = {'op': 'best_feasible', 'sample_set': chk.hexdict(sd, MSGSS), 'unrelaxed': unrelaxed}
        sv = chk.conv.from_dict(sd, MSGSS)
        objv = {i: v for v, g in zip(vals, part) for i in g}

        def py(it, sv=sv, unrelaxed=unrelaxed, objv=objv):
            r = it.run_body(bfuid if unrelaxed else bfid, [ref_to(sv)])
            return 'err' if r.vname != 'Ok' else objv[r.f[0]]

        def nat(res, objv=objv):
            return 'err' if 'ok' not in res else objv[res['ok']['id']]
        # ties may be broken differently by the hash order of the feasibility map, so compare the optimal value, not the id
        chk.validate('best_feasible_id', py, case, nat)


if __name__ == '__main__':
    main('C15', build)
