"""C14 — relaxing and restoring constraints only moves them (engine M)."""
import z3
from fractions import Fraction
from .common import *
from .oracles import *
from .instances import *
from . import c05
from mirsym.interp import deep_clone

MSGI, MSGS = 'ommx.v1.Instance', 'ommx.v1.State'


def build(chk):
    eng = chk.eng
    relax = eng.method('relax_constraint', first_param='&mut v1::Instance')
    restore = eng.method('restore_constraint', first_param='&mut v1::Instance')
    ev_i = eng.method('evaluate', first_param='&v1::Instance')
    B, rd = Build(chk), Rd(chk)
    L = 4 if chk.tier == 'quick' else 6
    chk.bounds = {'instance': '2 active + 1 removed constraint (ids 11, 12, 13), constant and linear functions with symbolic values around the tolerance, symbolic equalities',
                  'operation sequences': f'every sequence of length <= {L} over relax(id)/restore(id) with id in {{11,12,13,99}} (explored paths); the property quantifies up to length 8',
                  'evaluation': 'after the last step at a symbolic state'}
    chk.assumptions += ['R-model', 'metadata strings are concrete tokens', 'library models trusted and validated natively each run']
    TARGETS = [11, 12, 13, 99]

    def mk(first, with_eval, L):
        def h(P):
          x1 = P.real('x1')
          eqs = [EQ if P.choose(2) == 0 else LE for _ in range(3)] if with_eval else [EQ, LE, LE]
          v0, v2 = P.real('v0'), P.real('v2')
          a, k = P.real('a'), P.real('k')
          fns = [(chk.M.function('Constant', v0), SymFn([([], v0)])),
                 (chk.M.function('Linear', chk.M.linear([(1, a)], k)), SymFn([([1], a), ([], k)])),
                 (chk.M.function('Constant', v2), SymFn([([], v2)]))]
          cons = [Con(11, eqs[0], fns[0], name='c11', subscripts=[1, 2], params=[('p', 'q')], desc='first'),
                  Con(12, eqs[1], fns[1], name=None),
                  Con(13, eqs[2], fns[2], name='c13')]
          active = [cons[0], cons[1]]
          removed = [Rem(cons[2], reason='initial', params=[('why', 'given')])]
          spec0 = Inst(objective=None, vars=[Var(1, 3)], cons=list(active), removed=list(removed))
          inst = B.instance(spec0)
          ops = []
          nsteps = P.choose(L + 1) if first is None else 1 + P.choose(L)

          def witness(model):
              idict = chk.conv.to_dict(B.instance(spec0), MSGI, model)
              sdict = {'entries': [(1, valconv.fv_to_float(x1, model))]}
              case = {'op': 'relax_restore', 'instance': chk.hexdict(idict, MSGI), 'ops': [[o[0], o[1], o[2]] for o in ops], 'state': chk.hexdict(sdict, MSGS)}
              # concrete model of the expected history
              act = [c['id'] for c in idict['constraints']]
              rem = {r['constraint']['id']: (r['removed_reason'], sorted(r['removed_reason_parameters'])) for r in idict['removed_constraints']}
              results = []
              for kind, tid, reason in ops:
                  if kind == 'relax' and tid in act:
                      act.remove(tid)
                      rem[tid] = (reason, [('step', reason)])
                      results.append(True)
                  elif kind == 'restore' and tid in rem:
                      del rem[tid]
                      act.append(tid)
                      results.append(True)
                  else:
                      results.append(False)
              allc = {c['id']: c for c in idict['constraints']} | {r['constraint']['id']: r['constraint'] for r in idict['removed_constraints']}
              asg = {1: F(sdict['entries'][0][1])}

              def holds(c):
                  v = fn_eval(c['function'], asg)
                  return abs(v) < 1e-6 if c['equality'] == 1 else v < 1e-6

              def judge(res):
                  if 'ok' not in res:
                      return True
                  r = res['ok']
                  if r['results'] != results:
                      return True
                  fin_ = chk.unhex(r['instance'], MSGI)
                  if sorted(c['id'] for c in fin_['constraints']) != sorted(act):
                      return True
                  got_rem = {x['constraint']['id']: (x['removed_reason'], sorted(x['removed_reason_parameters'])) for x in fin_['removed_constraints']}
                  if got_rem != rem:
                      return True
                  for c in fin_['constraints'] + [x['constraint'] for x in fin_['removed_constraints']]:
                      o = allc[c['id']]
                      if (c['equality'], c['function'], c['name'], c['subscripts'], sorted(c['parameters']), c['description']) != \
                              (o['equality'], o['function'], o['name'], o['subscripts'], sorted(o['parameters']), o['description']):
                          return True
                  if 'solution' not in r:
                      return True
                  sol = chk.unhex(r['solution'], 'ommx.v1.Solution')
                  if sol['feasible'] != all(holds(c) for c in allc.values()):
                      return True
                  if sol['feasible_relaxed'] != all(holds(allc[i]) for i in act):
                      return True
                  return False
              return case, judge, f'ops {ops} on instance {idict}, evaluate at {sdict}: expected results {results}, active {act}, removed {rem}'
          for step in range(nsteps):
              if step == 0 and first is not None:
                  kind, tid = first
              else:
                  kind = 'relax' if P.choose(2) == 0 else 'restore'
                  tid = TARGETS[P.choose(len(TARGETS))]
              reason = '' if step == 0 else f'r{step}'     # the first operation carries an empty reason string (legal): a constraint relaxed with it is still a removed constraint
              ops.append((kind, tid, reason))
              before = rd.instance(inst)
              before_clone = deep_clone(inst)
              try:
                  if kind == 'relax':
                      r = P.it.run_body(relax, [ref_to(inst), tid, RString(reason), strmap([('step', reason)])])
                  else:
                      r = P.it.run_body(restore, [ref_to(inst), tid])
              except RustPanic:
                  P.fail('no-panic', witness)
                  return
              ok_expected = (kind == 'relax' and any(c.id == tid for c in active)) or (kind == 'restore' and any(r_.con.id == tid for r_ in removed))
              if (r.vname == 'Ok') != ok_expected:
                  P.fail('op-succeeds-iff-id-in-expected-list', witness)
                  return
              if ok_expected:
                  if kind == 'relax':
                      c = [c for c in active if c.id == tid][0]
                      active.remove(c)
                      removed.append(Rem(c, reason=reason, params=[('step', reason)]))
                  else:
                      r_ = [r_ for r_ in removed if r_.con.id == tid][0]
                      removed.remove(r_)
                      active.append(r_.con)
              else:
                  P.cover('failed-op')
                  if not P.require('failed-op-changes-nothing', val_eq(inst, before_clone), witness):
                      return
              # the collection is unchanged as a set; each id in exactly one list; reasons recorded
              now = rd.instance(inst)
              got_act = {c['id']: c for c in now['cons']}
              got_rem = {r_['constraint']['id']: r_ for r_ in now['removed'] if r_['constraint'] is not None}
              conj = [len(got_act) == len(now['cons']), len(got_rem) == len(now['removed']),
                      sorted(got_act) == sorted(c.id for c in active), sorted(got_rem) == sorted(r_.con.id for r_ in removed)]
              if all(conj):
                  for c in active:
                      conj.append(same_constraint(chk, got_act[c.id], c))
                  for r_ in removed:
                      g = got_rem[r_.con.id]
                      conj += [same_constraint(chk, g['constraint'], r_.con), g['reason'] == r_.reason, g['params'] == sorted(r_.params)]
              if not P.require('moved-only', b_and(*conj), witness):
                  return
          if not with_eval:
              return
          # evaluation after the sequence
          spec = Inst(objective=None, vars=[Var(1, 3)], cons=list(active), removed=list(removed))
          try:
              res = P.it.run_body(ev_i, [ref_to(inst), ref_to(B.state([(1, x1)]))])
          except RustPanic:
              P.fail('no-panic-evaluate', witness)
              return
          if res.vname != 'Ok':
              P.fail('evaluate-ok', witness)
              return
          sol = rd.solution(res.f[0].f[0])
          exp = c05.expected(spec, [(1, x1)])
          byid = {ec['id']: ec for ec in sol['evaluated_constraints']}
          conj = [len(byid) == 3]
          for c, val, r_ in exp['cons']:
              if c.id in byid:
                  conj += [feq(byid[c.id]['value'], val), byid[c.id]['removed_reason'] == (None if r_ is None else r_.reason)]
          conj += [z3bool(sol['feasible']) == z3bool(b_and(*[c05.holds(c.eq, fv) for c, fv, _ in exp['cons']])),
                   z3bool(sol['feasible_relaxed']) == z3bool(exp['feasible_relaxed'])]
          P.require('evaluation-invariants', b_and(*conj), witness)
        return h
    for kind in ('relax', 'restore'):
        for tid in TARGETS:
            chk.harness(f'sequences<={L}:first={kind}({tid})', mk((kind, tid), False, L), max_paths=400000)
    chk.harness('sequences<=2+evaluate', mk(None, True, 2), regions=['failed-op'], max_paths=400000)
    chk.validation('relax/restore', lambda c: validate(c, relax, restore))


def same_constraint(chk, got, c):
    """got: reader dict; c: Con spec. function compared structurally (same message)"""
    want_fn = c.fn[0] if c.fn is not None else None
    fn_ok = (got['function'] is None) == (want_fn is None) and (want_fn is None or val_eq(got['function'], want_fn))
    return b_and(scalar_eq(got['equality'], c.eq), fn_ok, got['name'] == c.name, got['subscripts'] == c.subscripts,
                 got['parameters'] == sorted(c.params), got['description'] == c.desc)


def validate(chk, relax, restore):
    rng = chk.rng
    n = 40 if chk.tier == 'quick' else 300
    for t in range(n):
        inst, state = c05.rand_instance(rng)
        ops = []
        ids = [c['id'] for c in inst['constraints']] + [r['constraint']['id'] for r in inst['removed_constraints']] + [99]
        for s in range(rng.randint(1, 5)):
            ops.append([rng.choice(['relax', 'restore']), rng.choice(ids), f'r{s}'])
        case = {'op': 'relax_restore', 'instance': chk.hexdict(inst, MSGI), 'ops': ops, 'state': ''}
        iv = chk.conv.from_dict(inst, MSGI)

        def py(it, iv=iv, ops=ops):
            results = []
            for kind, tid, reason in ops:
                if kind == 'relax':
                    r = it.run_body(relax, [ref_to(iv), tid, RString(reason), strmap([('step', reason)])])
                else:
                    r = it.run_body(restore, [ref_to(iv), tid])
                results.append(r.vname == 'Ok')
            d = chk.conv.to_dict(iv, MSGI)
            return (results, norm_lists(d))

        def nat(res):
            if 'ok' not in res:
                return res
            return (res['ok']['results'], norm_lists(chk.unhex(res['ok']['instance'], MSGI)))
        chk.validate('relax/restore', py, case, nat)


def norm_lists(d):
    return ([(c['id'], c['equality'], str(c['function']), c['name']) for c in d['constraints']],
            [(r['constraint']['id'], r['removed_reason'], sorted(r['removed_reason_parameters'])) for r in d['removed_constraints']])


if __name__ == '__main__':
    main('C14', build)
