"""C08 — validation accepts exactly the well-formed instances; the typed view keeps content (engine M)."""
import z3
from fractions import Fraction
from .common import *
from .oracles import *
from .instances import *
from mirsym.interp import deep_clone, f_cmp

MSGI, MSGP = 'ommx.v1.Instance', 'ommx.v1.ParametricInstance'


def lin_ids(chk, ids):
    terms = [(i, ONE) for i in ids]
    return chk.M.function('Linear', chk.M.linear(terms, ZERO)), SymFn([([i], ONE) for i in ids])


def build(chk):
    eng = chk.eng
    validate = eng.method('validate', first_param='&v1::Instance')
    pvalidate = eng.method('validate', first_param='&ParametricInstance')
    tryfrom = eng.find_body(lambda b: b.name.split('::')[-1] == 'try_from' and b.param_tys == ['v1::Instance'])
    B, rd = Build(chk), Rd(chk)
    chk.bounds = {'validate': '3 variables with ids from {1,2,3}, 2 active constraint ids from {10,11}, 2 removed ids from {10,11,12} x {12,13}, used ids at each position from defined/undefined ids '
                  '(every combination explored, so single and double faults are regions of one space)',
                  'typed conversion': 'sense, kinds, equalities symbolic 32-bit integers (unspecified and unknown values included); every optional message field present/absent; bound endpoints '
                  'symbolic with NaN/+-inf by explored choice; one-hot and SOS1 hints and a dependency with ids from defined/undefined/repeated'}
    chk.assumptions += ['R-model for bound endpoints', 'library models trusted and validated natively each run']

    # ---------------------------------------------------------------- (A) v1::Instance::validate / ParametricInstance::validate
    def h_validate(P):
        vids = [[1, 2, 3][P.choose(3)] for _ in range(3)]
        cids = [[10, 11][P.choose(2)] for _ in range(2)]
        rid = [10, 11, 12][P.choose(3)]
        rid2 = [12, 13][P.choose(2)]          # a second removed constraint: duplicates inside the removed list alone
        uo = [1, 2, 3, 4][P.choose(4)]
        uc = [1, 4][P.choose(2)]
        ur = [2, 4][P.choose(2)]
        rem_has_constraint = P.choose(2)
        spec = Inst(objective=lin_ids(chk, [uo]), vars=[Var(i, 3) for i in vids], cons=[Con(cids[0], EQ, lin_ids(chk, [uc])), Con(cids[1], LE, None)],
                    removed=[Rem(Con(rid, EQ, lin_ids(chk, [ur]))), Rem(Con(rid2, LE, lin_ids(chk, [1])))])
        inst = B.instance(spec)
        if not rem_has_constraint:
            eng.setfield(deref(eng.field(inst, 'v1::Instance', 'removed_constraints')).items[0], 'v1::RemovedConstraint', 'constraint', NONE())
        used = {uo, uc, 1} | ({ur} if rem_has_constraint else set())
        allc = cids + ([rid] if rem_has_constraint else []) + [rid2]
        well = len(set(vids)) == 3 and len(set(allc)) == len(allc) and used <= set(vids)

        def witness(model):
            idict = chk.conv.to_dict(inst, MSGI, model)
            case = {'op': 'validate', 'instance': chk.hexdict(idict, MSGI)}
            return case, (lambda res: ('ok' in res) != well), f'validate({idict}) expected {"Ok" if well else "Err"}'
        try:
            res = P.it.run_body(validate, [ref_to(inst)])
        except RustPanic:
            P.fail('no-panic', witness)
            return
        P.cover('valid' if well else 'invalid')
        P.require('ok-iff-well-formed', (res.vname == 'Ok') == well, witness)
    chk.harness('validate:instance', h_validate, regions=['valid', 'invalid'])

    def h_pvalidate(P):
        vids = [[1, 2][P.choose(2)] for _ in range(2)]
        pids = [[2, 5, 6][P.choose(3)] for _ in range(2)]
        cids = [[10, 11][P.choose(2)] for _ in range(2)]
        rid = [10, 12][P.choose(2)]
        uo = [1, 5, 7][P.choose(3)]
        uc = [2, 6, 7][P.choose(3)]
        ur = [1, 7][P.choose(2)]      # removed constraints are not checked for parametric instances
        spec = Inst(objective=lin_ids(chk, [uo]), vars=[Var(i, 3) for i in vids], cons=[Con(cids[0], EQ, lin_ids(chk, [uc])), Con(cids[1], LE, None)],
                    removed=[Rem(Con(rid, EQ, lin_ids(chk, [ur])))])
        inst = B.instance(spec)
        f = lambda n: eng.field(inst, 'v1::Instance', n)
        par = lambda i: eng.struct('v1::Parameter', id=i, name=NONE(), subscripts=RVec([]), parameters=strmap([]), description=NONE())
        pinst = eng.struct('v1::ParametricInstance', description=NONE(), decision_variables=f('decision_variables'), parameters=RVec([par(i) for i in pids]),
                           objective=f('objective'), constraints=f('constraints'), sense=1, constraint_hints=NONE(), removed_constraints=f('removed_constraints'),
                           decision_variable_dependency=RMap('hash'))
        allids = vids + pids
        well = len(set(allids)) == len(allids) and len(set(cids + [rid])) == 3 and {uo, uc} <= set(allids)

        def witness(model):
            pd = chk.conv.to_dict(pinst, MSGP, model)
            return {'op': 'validate_parametric', 'parametric': chk.hexdict(pd, MSGP)}, (lambda res: ('ok' in res) != well), f'validate({pd}) expected {"Ok" if well else "Err"}'
        try:
            res = P.it.run_body(pvalidate, [ref_to(pinst)])
        except RustPanic:
            P.fail('no-panic', witness)
            return
        P.cover('valid' if well else 'invalid')
        P.require('ok-iff-well-formed', (res.vname == 'Ok') == well, witness)
    chk.harness('validate:parametric', h_pvalidate, regions=['valid', 'invalid'])

    # ---------------------------------------------------------------- (B) typed conversion
    def typed_harness(focus):
        def h(P):
            faults = []          # (rule, path) expected to be reportable
            if focus == 'enums':
                sense = P.bv('sense', bits=32)
                kinds = [P.bv(f'kind{i}', bits=32) for i in range(2)]
                eqs = [P.bv(f'eq{i}', bits=32) for i in range(2)]
            else:
                # enum fields concrete outside the enum-focused harness (each symbolic enum multiplies the explored paths)
                sense = z3.BitVecVal([1, 2][P.choose(2)], 32)
                kinds = [z3.BitVecVal([2, 1, 3][P.choose(3)], 32), z3.BitVecVal(1, 32)]
                eqs = [z3.BitVecVal(1, 32), z3.BitVecVal(2, 32)]
            # bounds
            bshape = ['none', 'finite', 'nan-lower', 'nan-upper', 'inf-lower', 'ninf-upper', 'free', 'inf-inf', 'ninf-ninf', 'lower-only', 'upper-only'][P.choose(11)] if focus == 'bounds' else ['none', 'finite'][P.choose(2)]
            lo, hi = P.real('lo'), P.real('hi')
            bound0 = {'none': None, 'finite': (lo, hi), 'nan-lower': (NAN, hi), 'nan-upper': (lo, NAN), 'inf-lower': (PINF, hi), 'ninf-upper': (lo, NINF), 'free': (NINF, PINF),
                      'inf-inf': (PINF, PINF), 'ninf-ninf': (NINF, NINF), 'lower-only': (lo, PINF), 'upper-only': (NINF, hi)}[bshape]
            vids = [1, 2]
            if focus == 'ids':
                vids = [1, [1, 2][P.choose(2)]]
            obj_present = P.choose(2) if focus == 'fields' else 1
            obj_set = P.choose(2) if focus == 'fields' else 1
            cfn_present = P.choose(2) if focus == 'fields' else 1
            rem_con_present = P.choose(2) if focus == 'fields' else 1
            cids = [10, 11]
            rid = 12
            if focus == 'ids':
                cids = [10, [10, 11][P.choose(2)]]
                rid = [10, 12][P.choose(2)]
            dep_id = [1, 7][P.choose(2)] if focus == 'ids' else 2
            undef_at = [None, 'objective', 'constraint', 'removed', 'dependency'][P.choose(5)] if focus == 'used-ids' else None
            uid = lambda where, i: 9 if undef_at == where else i
            oh_c = [10, 99][P.choose(2)] if focus == 'hints' else 10
            oh_v = [[1, 2], [1, 1], [1, 9]][P.choose(3)] if focus == 'hints' else [1, 2]
            sos_b = [10, 99][P.choose(2)] if focus == 'hints' else 10
            sos_m = [[11], [11, 11], [98]][P.choose(3)] if focus == 'hints' else [11]
            sos_v = [[2], [2, 2], [9]][P.choose(3)] if focus == 'hints' else [2]
            hints_present = P.choose(2) if focus == 'hints' else 1
            # 'hints': the two constraints are active, or both have been relaxed (then no hint can refer to an active constraint)
            no_active = (P.choose(2) == 1) if focus == 'hints' else False
            obj = lin_ids(chk, [uid('objective', 1)]) if obj_set else (chk.M.function(), SymFn([]))
            spec = Inst(sense=sense, objective=obj if obj_present else None,
                        vars=[Var(vids[0], kinds[0], bound0, name='x'), Var(vids[1], kinds[1], None, sub=P.real('sub'))],
                        cons=[] if no_active else [Con(cids[0], eqs[0], lin_ids(chk, [uid('constraint', 2)]) if cfn_present else None, name='c0', subscripts=[4]), Con(cids[1], eqs[1], lin_ids(chk, [1]))],
                        removed=[Rem(Con(rid, EQ, lin_ids(chk, [uid('removed', 1)])) if rem_con_present else None, reason='rr', params=[('a', 'b')])] +
                        ([Rem(Con(cids[0], eqs[0], lin_ids(chk, [2]), name='c0'), reason='relaxed'), Rem(Con(cids[1], eqs[1], lin_ids(chk, [1])), reason='relaxed')] if no_active else []),
                        deps=[(dep_id, lin_ids(chk, [uid('dependency', 1)]))],
                        hints=eng.struct('v1::ConstraintHints', one_hot_constraints=RVec([eng.struct('v1::OneHot', constraint_id=oh_c, decision_variables=RVec(list(oh_v)))]),
                                         sos1_constraints=RVec([eng.struct('v1::Sos1', binary_constraint_id=sos_b, big_m_constraint_ids=RVec(list(sos_m)),
                                                                           decision_variables=RVec(list(sos_v)))])) if hints_present else None)
            inst = B.instance(spec)

            # the driver's well-formedness predicate for the typed view (symbolic where the fields are)
            def in12(x):
                return z3.And(z3.ULE(1, x), z3.ULE(x, 2))
            conds = [in12(sense)] + [z3.And(z3.ULE(1, k), z3.ULE(k, 5)) for k in kinds] + [in12(e) for e in eqs]
            if bound0 is not None:
                bl, bu = bound0
                if bl.tag == 'nan' or bu.tag == 'nan' or bl.tag == 'pinf' or bu.tag == 'ninf':
                    conds.append(False)
                elif bl.tag == 'fin' and bu.tag == 'fin':
                    conds.append(bl.r <= bu.r)
            conds += [len(set(vids)) == 2, bool(obj_present), bool(obj_set), bool(cfn_present), bool(rem_con_present),
                      len(set(cids)) == 2, rid not in cids, dep_id in vids, undef_at is None]
            if hints_present:
                active = [] if no_active else cids
                conds += [oh_c in active, len(set(oh_v)) == len(oh_v), set(oh_v) <= set(vids), sos_b in active, len(set(sos_m)) == len(sos_m), set(sos_m) <= set(active),
                          len(set(sos_v)) == len(sos_v), set(sos_v) <= set(vids)]
            well = b_and(*conds)

            def witness(model):
                idict = chk.conv.to_dict(B.instance(spec), MSGI, model)
                case = {'op': 'try_from_instance', 'instance': chk.hexdict(idict, MSGI)}
                w = model.eval(z3bool(well), model_completion=True)
                wb = z3.is_true(w)

                def judge(res):
                    if ('ok' in res) != wb:
                        return True
                    if wb:
                        # typed bounds: unspecified = unbounded, [0,1] for binary
                        for v in idict['decision_variables']:
                            if v['bound'] is None:
                                want = [0.0, 1.0] if v['kind'] == 1 else ['-inf', 'inf']
                                got = res['ok']['bounds'].get(str(v['id']))
                                if got != want:
                                    return True
                    return False
                return case, judge, f'try_from({idict}) expected {"Ok" if wb else "Err"}'
            try:
                res = P.it.run_body(tryfrom, [inst])
            except RustPanic:
                P.fail('no-panic', witness)
                return
            if res.vname == 'Ok':
                P.cover('accepted')
                if not P.require('accepted-only-if-well-formed', well, witness, role='undefined-variable-id-in-function-accepted' if undef_at else None):
                    return
                # typed content
                t = res.f[0]
                tf = lambda n: eng.field(t, 'instance::Instance', n)
                dvs = {e[0].f[0]: e[1] for e in deref(tf('decision_variables')).entries}
                conj = [sorted(dvs) == sorted(vids)]
                for v in spec.vars:
                    if v.id in dvs:
                        dv = dvs[v.id]
                        b = eng.field(dv, 'decision_variable::DecisionVariable', 'bound')
                        bl, bu = b.f
                        if v.bound is not None:
                            conj += [feq(bl, v.bound[0]), feq(bu, v.bound[1])]
                        else:
                            # unspecified bound = unbounded, [0,1] for binaries
                            isbin = (v.kind == 1) if isinstance(v.kind, int) else (v.kind == z3.BitVecVal(1, 32))
                            unb = b_and(bl.tag == 'ninf', bu.tag == 'pinf')
                            unit = b_and(bl.tag == 'fin' and f_cmp('eq', bl, ZERO), bu.tag == 'fin' and f_cmp('eq', bu, ONE))
                            conj.append(z3.If(z3bool(isbin), z3bool(unit), z3bool(unb)) if not isinstance(isbin, bool) else (unit if isbin else unb))
                        subv = eng.field(dv, 'decision_variable::DecisionVariable', 'substituted_value')
                        conj.append((subv.discr == 1) == (v.sub is not None) and (v.sub is None or feq(subv.f[0], v.sub)))
                P.require('typed-view-keeps-content', b_and(*conj), witness, role='unspecified-bound-read-as-[0,0]')
            else:
                P.cover('rejected')
                P.require('never-rejects-well-formed', b_not(well), witness)
        return h
    for focus in ('enums', 'bounds', 'fields', 'ids', 'hints', 'used-ids'):
        chk.harness(f'try_from:{focus}', typed_harness(focus), regions=['accepted', 'rejected'])
    chk.validation('validate/try_from', lambda c: validate_tv(c, validate, tryfrom))


def validate_tv(chk, validate, tryfrom):
    from . import c05
    rng = chk.rng
    n = 60 if chk.tier == 'quick' else 400
    for t in range(n):
        inst, _ = c05.rand_instance(rng)
        # random single faults
        r = rng.random()
        if r < .15 and inst['constraints']:
            inst['constraints'][0]['equality'] = 0
        elif r < .3:
            inst['decision_variables'][1]['id'] = inst['decision_variables'][0]['id']
        elif r < .4:
            inst['sense'] = 0
        elif r < .5:
            inst['objective'] = None
        elif r < .6:
            inst['decision_variables'][0]['bound'] = {'lower': 1.0, 'upper': 0.0}
        case = {'op': 'validate', 'instance': chk.hexdict(inst, MSGI)}
        iv = chk.conv.from_dict(inst, MSGI)
        chk.validate('validate', lambda it, iv=iv: it.run_body(validate, [ref_to(iv)]).vname == 'Ok', case, lambda res: 'ok' in res)
        case2 = {'op': 'try_from_instance', 'instance': chk.hexdict(inst, MSGI)}
        iv2 = chk.conv.from_dict(inst, MSGI)
        chk.validate('try_from', lambda it, iv2=iv2: it.run_body(tryfrom, [iv2]).vname == 'Ok', case2, lambda res: 'ok' in res)


if __name__ == '__main__':
    main('C08', build)
