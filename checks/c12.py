"""C12 — log-encoding covers exactly the integer range (engine M)."""
import itertools
import z3
from fractions import Fraction
from .common import *
from .oracles import *
from .instances import *
from mirsym.interp import deep_clone, f_cmp, f_floor, f_ceil

MSGI = 'ommx.v1.Instance'
KMAX = 21
NEAR = 12


def build(chk):
    eng = chk.eng
    le = eng.method('log_encode', first_param='&mut v1::Instance')
    B, rd = Build(chk), Rd(chk)
    chk.bounds = {'bounds': f'main harness: lower and upper symbolic on the half-integer grid k/2 with |k| <= 2^{KMAX} (so |l|,|u| <= 2^{KMAX - 1} and fractional bounds are covered); near-integer harnesses: symbolic integer part in [-{NEAR},{NEAR}] plus a fractional part from {{0, 2^-30, 1-2^-30}} (8 combinations: endpoints a hair above / below an integer); infinite / NaN endpoints and '
                  'missing bound by explored choice', 'kinds': 'integer, binary, continuous, unspecified', 'range width': f'ceil(log2(width+1)) ranges over 1..{KMAX} (one explored path each)',
                  'image check': 'widths < 64: for every t in 0..63 the solver shows (t <= width) -> some bit assignment sums to t, and every bit assignment sums into the range; '
                  'larger widths: the complete-sequence criterion (sorted coefficients c1=1, c_{i+1} <= 1 + sum of the previous ones, total = width)'}
    chk.assumptions += ['R-model; libm log2 is exact at powers of two and does not round log2(2^(k-1)+1) down to k-1 (margin 2^-20 >> 1 ulp); powi(2, i) exact for i <= 21',
                        'complete-sequence lemma: positive integers sorted ascending with c1 = 1 and c_{i+1} <= 1 + c1+..+ci have subset sums covering every integer in [0, total]',
                        'library models trusted and validated natively each run']

    def h(P, fl=None, fu=None):
        kind = [2, 1, 3, 0][P.choose(4)]
        bshape = ['finite', 'none', 'upper-inf', 'lower-inf', 'both-inf', 'nan'][P.choose(6)]
        target = [3, 99][P.choose(2)]
        kl, ku = z3.Int('kl'), z3.Int('ku')
        if fl is None:
            # main harness: half-integer grid over the full magnitude range
            lim = 2 ** KMAX
            P.ctx.assume(z3.And(kl >= -lim, kl <= lim, ku >= -lim, ku <= lim))
            lo, hi = FV('fin', z3.ToReal(kl) / 2), FV('fin', z3.ToReal(ku) / 2)
        else:
            # near-integer harnesses: symbolic integer part in [-NEAR, NEAR] + a fractional part from {0, 2^-30, 1 - 2^-30}: endpoints a hair above /
            # below an integer (closer than any tolerance >= 1e-9; exact binary64 values)
            P.ctx.assume(z3.And(kl >= -NEAR, kl <= NEAR, ku >= -NEAR, ku <= NEAR))
            lo, hi = FV('fin', z3.ToReal(kl) + z3.Q(fl.numerator, fl.denominator)), FV('fin', z3.ToReal(ku) + z3.Q(fu.numerator, fu.denominator))
        bound = {'finite': (lo, hi), 'none': None, 'upper-inf': (lo, PINF), 'lower-inf': (NINF, hi), 'both-inf': (NINF, PINF), 'nan': (lo, NAN)}[bshape]
        order = [[3, 10], [10, 3], [4, 3]][P.choose(3)]     # listing order of the decision variables (ids need not be sorted)
        other = [i for i in order if i != 3][0]
        spec = Inst(objective=None, vars=[Var(i, kind, bound, name='n') if i == 3 else Var(i, 3) for i in order])
        inst = B.instance(spec)
        ctxk = P.ctx
        ctxk.log2_kmax = KMAX + 1

        def witness(model):
            idict = chk.conv.to_dict(B.instance(spec), MSGI, model)
            case = {'op': 'log_encode', 'instance': chk.hexdict(idict, MSGI), 'id': target, 'isolated': True}
            v = [x for x in idict['decision_variables'] if x['id'] == 3][0]
            b = v['bound']
            import math
            err_expected = target != 3 or v['kind'] != 2 or b is None or not all(map(math.isfinite, (b['lower'], b['upper']))) or math.ceil(b['lower']) > math.floor(b['upper'])

            def judge(res):
                if res.get('timeout') or res.get('crashed') or 'panic' in res:
                    return True
                if err_expected:
                    return 'err' not in res
                if 'ok' not in res:
                    return True
                lin = chk.unhex(res['ok']['linear'], 'ommx.v1.Linear')
                after_ids = [x['id'] for x in chk.unhex(res['ok']['instance'], MSGI)['decision_variables']]
                if len(set(after_ids)) != len(after_ids):
                    return True       # a registered binary reuses an existing id
                lo_i, hi_i = math.ceil(b['lower']), math.floor(b['upper'])
                cs = [t['coefficient'] for t in lin['terms']]
                if hi_i - lo_i > 4096:
                    return False
                reach = {lin['constant']}
                for c in cs:
                    reach |= {r + c for r in reach}
                return reach != set(float(x) for x in range(lo_i, hi_i + 1))
            return case, judge, f'log_encode({target}) on {v}: expected {"Err" if err_expected else "an encoding of the integer range"}'

        def role(model):
            return 'infinite-bound-does-not-terminate' if bshape in ('upper-inf', 'lower-inf', 'both-inf') and kind == 2 and target == 3 else None
        try:
            res = P.it.run_body(le, [ref_to(inst), target])
        except RustPanic:
            P.fail('no-panic', witness, role)
            return
        except BudgetExceeded:
            P.cover('non-terminating')
            P.fail('terminates', witness, role)
            return
        width_int = None
        must_err = target != 3 or kind != 2 or bshape != 'finite'
        if res.vname != 'Ok':
            P.cover('err')
            if must_err:
                P.require('err-justified', True)
            else:
                # finite integer bound: Err only when the bound contains no integer
                P.require('err-only-without-integer', f_cmp('gt', f_ceil(lo), f_floor(hi)), witness)
            return
        P.cover('encoded')
        if must_err:
            P.fail('must-be-error', witness, role)
            return
        lin = res.f[0]
        terms = [(deref(t).f[0], deref(t).f[1]) for t in deref(eng.field(lin, 'v1::Linear', 'terms')).items]
        const = eng.field(lin, 'v1::Linear', 'constant')
        L, U = f_ceil(lo), f_floor(hi)
        width = r_sub(U.r, L.r)
        conj = [f_cmp('le', L, U), feq(const, L)]
        after = rd.instance(inst)
        newvars = after['vars'][2:]
        conj.append([v['id'] for v in after['vars'][:2]] == order)
        # registered binaries: new unique ids (distinct, not used before), kind binary, bound [0,1], tagged [encoded id, bit index]
        newids = [v['id'] for v in newvars]
        conj.append(len(set(newids)) == len(newids) and not (set(newids) & set(order)))
        conj.append([t[0] for t in terms] == newids)
        for i, v in enumerate(newvars):
            dv = deref(eng.field(inst, 'v1::Instance', 'decision_variables')).items[2 + i]
            subs = list(deref(eng.field(dv, 'v1::DecisionVariable', 'subscripts')).items)
            conj += [v['kind'] == 1, v['bound'] is not None and feq(v['bound'][0], ZERO) and feq(v['bound'][1], ONE), subs == [3, i]]
        n = len(terms)
        cs = [c.r for _, c in terms]
        if n == 0:
            conj.append(r_cmp('eq', width, Fraction(0)))
        else:
            tot = Fraction(0)
            for c in cs:
                tot = r_add(tot, c)
            conj.append(r_cmp('eq', tot, width))
            if n <= 6:
                # direct: every subset sum lies in [0,width] and every t <= width is a subset sum
                sums = []
                for bits in itertools.product([0, 1], repeat=n):
                    s = Fraction(0)
                    for b_, c in zip(bits, cs):
                        if b_:
                            s = r_add(s, c)
                    sums.append(s)
                for s in sums:
                    conj += [r_cmp('ge', s, Fraction(0)), r_cmp('le', s, width)]
                    if not isinstance(s, Fraction):
                        conj.append(z3.IsInt(s))
                    elif s.denominator != 1:
                        conj.append(False)
                for t in range(0, 2 ** n):
                    conj.append(z3.Implies(z3bool(r_cmp('le', Fraction(t), width)), z3bool(b_or(*[r_cmp('eq', s, Fraction(t)) for s in sums]))))
            else:
                # complete-sequence criterion with the single symbolic coefficient inserted at every possible sorted position
                conc = sorted(c for c in cs if isinstance(c, Fraction))
                sym = [c for c in cs if not isinstance(c, Fraction)]
                if len(sym) > 1:
                    conj.append(False)
                else:
                    alts = []
                    xs = sym[0] if sym else None
                    for pos in range(len(conc) + 1) if sym else [None]:
                        seq = conc[:pos] + [xs] + conc[pos:] if sym else conc
                        ok = [r_cmp('eq', seq[0], Fraction(1))]
                        run = Fraction(0)
                        for i_, c in enumerate(seq):
                            if i_ > 0:
                                ok.append(r_cmp('le', c, r_add(run, Fraction(1))))
                                ok.append(r_cmp('ge', c, seq[i_ - 1]))
                            ok.append(r_cmp('ge', c, Fraction(1)))
                            if not isinstance(c, Fraction):
                                ok.append(z3.IsInt(c))
                            run = r_add(run, c)
                        alts.append(b_and(*ok))
                    conj.append(b_or(*alts))
        P.require('encodes-exactly-the-integer-range', b_and(*conj), witness)
    chk.harness('log_encode', h, regions=['err', 'encoded'], step_budget=300000, max_paths=100000)
    FR = [Fraction(0), Fraction(1, 2 ** 30), 1 - Fraction(1, 2 ** 30)]
    for fl in FR:
        for fu in FR:
            if fl or fu:
                chk.harness(f'log_encode:near-integer({fl},{fu})', (lambda P, fl=fl, fu=fu: h(P, fl, fu)), regions=['err', 'encoded'], step_budget=300000, max_paths=100000)
    chk.validation('log_encode', lambda c: validate(c, le))


def validate(chk, le):
    rng = chk.rng
    n = 60 if chk.tier == 'quick' else 400
    for t in range(n):
        lo = rng.randint(-40, 40) / 2
        hi = lo + rng.choice([0, 0.5, 1, 2, 3, 3.5, 7, 8, 9, 100, 1023, 1024])
        kind = rng.choice([2, 2, 2, 1, 3])
        inst = {'description': None, 'decision_variables': [
            {'id': 3, 'kind': kind, 'bound': None if rng.random() < .1 else {'lower': lo, 'upper': hi}, 'name': None, 'subscripts': [], 'parameters': [], 'description': None, 'substituted_value': None},
            {'id': 10, 'kind': 3, 'bound': None, 'name': None, 'subscripts': [], 'parameters': [], 'description': None, 'substituted_value': None}][::rng.choice([1, -1])],
            'objective': None, 'constraints': [], 'sense': 1, 'parameters': None, 'constraint_hints': None, 'removed_constraints': [], 'decision_variable_dependency': []}
        tid = rng.choice([3, 3, 3, 10, 4])
        case = {'op': 'log_encode', 'instance': chk.hexdict(inst, MSGI), 'id': tid}
        iv = chk.conv.from_dict(inst, MSGI)

        def py(it, iv=iv, tid=tid):
            r = it.run_body(le, [ref_to(iv), tid])
            if r.vname != 'Ok':
                return 'err'
            d = chk.conv.to_dict(r.f[0], 'ommx.v1.Linear')
            after = chk.conv.to_dict(iv, MSGI)
            return (d['constant'], [(t_['id'], t_['coefficient']) for t_ in d['terms']], [(v['id'], v['kind'], v['subscripts']) for v in after['decision_variables']])

        def nat(res):
            if 'ok' not in res:
                return 'err'
            d = chk.unhex(res['ok']['linear'], 'ommx.v1.Linear')
            after = chk.unhex(res['ok']['instance'], MSGI)
            return (d['constant'], [(t_['id'], t_['coefficient']) for t_ in d['terms']], [(v['id'], v['kind'], v['subscripts']) for v in after['decision_variables']])
        chk.validate('log_encode', py, case, nat)


if __name__ == '__main__':
    main('C12', build)
