"""Independent oracles: denotation of ommx.v1 messages, computed by the driver from message fields
(symbolically over z3 reals from the lists the harness created, or concretely over Fractions from
decoded dict messages). Nothing here calls the SDK."""
from fractions import Fraction
import itertools, math
import z3
from mirsym.values import *
from mirsym.models import deref


# ----------------------------------------------------------------------------- concrete (dict messages)

def F(x):
    if isinstance(x, Fraction):
        return x
    if isinstance(x, float):
        if x != x or x in (math.inf, -math.inf):
            raise ValueError('non-finite')
        return Fraction(x)
    return Fraction(x)


def lin_terms(l):
    """monomials [(ids tuple, coef)] of a Linear dict"""
    out = [((t['id'],), F(t['coefficient'])) for t in l['terms']]
    out.append(((), F(l['constant'])))
    return out


def fn_monomials(f):
    """list of (ids tuple (unsorted), coefficient Fraction) for a Function dict (None/unset -> [])"""
    if f is None:
        return []
    arm = f.get('function')
    if arm is None:
        return []
    kind, p = arm
    if kind == 'constant':
        return [((), F(p))]
    if kind == 'linear':
        return lin_terms(p)
    if kind == 'quadratic':
        out = [((r, c), F(v)) for r, c, v in zip(p['rows'], p['columns'], p['values'])]
        if p.get('linear') is not None:
            out += lin_terms(p['linear'])
        return out
    if kind == 'polynomial':
        return [(tuple(t['ids']), F(t['coefficient'])) for t in p['terms']]
    raise ValueError(kind)


def fn_ids(f):
    s = set()
    for ids, c in fn_monomials(f):
        s.update(ids)
    return s


def fn_eval(f, assign):
    """exact value, or None if an occurring id has no value"""
    tot = Fraction(0)
    for ids, c in fn_monomials(f):
        v = c
        for i in ids:
            if i not in assign:
                return None
            v *= assign[i]
        tot += v
    return tot


def canon_poly(monos, drop_zero=True):
    """{sorted ids tuple: coefficient}"""
    d = {}
    for ids, c in monos:
        k = tuple(sorted(ids))
        d[k] = d.get(k, Fraction(0)) + c
    if drop_zero:
        d = {k: v for k, v in d.items() if v != 0}
    return d


def poly_mul(a, b):
    out = {}
    for ia, ca in a.items():
        for ib, cb in b.items():
            k = tuple(sorted(ia + ib))
            out[k] = out.get(k, Fraction(0)) + ca * cb
    return {k: v for k, v in out.items() if v != 0}


def poly_add(a, b, sb=1):
    out = dict(a)
    for k, v in b.items():
        out[k] = out.get(k, Fraction(0)) + sb * v
    return {k: v for k, v in out.items() if v != 0}


def state_assign(st):
    return {k: F(v) for k, v in (st['entries'] if isinstance(st['entries'], list) else st['entries'].items())}


def close(a, b, rel=1e-9, abs_=1e-9):
    a, b = float(a), float(b)
    if math.isinf(a) or math.isinf(b) or a != a or b != b:
        return a == b
    return abs(a - b) <= abs_ + rel * max(abs(a), abs(b))


# ----------------------------------------------------------------------------- symbolic (driver-built)

class SymFn:
    """a function the harness built: monomials as [(list of ids (int|BV), FV coef)]"""

    def __init__(self, monos):
        self.monos = monos

    def ids(self):
        out = []
        for ids, c in self.monos:
            out.extend(ids)
        return out

    def denote(self, lookup):
        """Σ c·Π lookup(id) as a z3 Real / Fraction; lookup(id) -> real expression"""
        tot = Fraction(0)
        for ids, c in self.monos:
            v = c.r
            for i in ids:
                v = r_mul(v, lookup(i))
            tot = r_add(tot, v)
        return tot


def ite_lookup(keys, vals, default=Fraction(0)):
    """id -> value as an ite chain over (concrete or symbolic) keys"""
    def lk(i):
        if isinstance(i, int):
            for k, v in zip(keys, vals):
                if isinstance(k, int) and k == i:
                    return v
        e = z3real(default)
        for k, v in reversed(list(zip(keys, vals))):
            cond = (i == k) if not (isinstance(i, int) and isinstance(k, int)) else z3.BoolVal(i == k)
            e = z3.If(cond, z3real(v), e)
        return e
    return lk


def in_set(x, xs):
    return b_or(*[(x == y) if not (isinstance(x, int) and isinstance(y, int)) else (x == y) for y in xs])


def set_eq(xs, ys):
    return b_and(*([in_set(x, ys) for x in xs] + [in_set(y, xs) for y in ys]))


def within(a, b, tol):
    """|a-b| <= tol as bool | z3 Bool; the difference is first normalised to a sum of monomials, so identities that hold
    by polynomial algebra are decided without the solver"""
    d = r_sub(a, b)
    if isinstance(d, Fraction):
        return abs(d) <= tol
    d = z3.simplify(d, som=True)
    if z3.is_rational_value(d):
        return abs(Fraction(d.numerator_as_long(), d.denominator_as_long())) <= tol
    return z3.And(d <= z3real(tol), -d <= z3real(tol))
