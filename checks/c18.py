"""C18 — writing an instance as MPS and reading it back returns the same problem (engine M, same text/token model as C17)."""
import itertools, math
import z3
from fractions import Fraction
from .common import *
from .oracles import *
from .instances import *
from .c02 import read_monos
from mirsym.interp import f_cmp, deep_clone

MSGI = 'ommx.v1.Instance'
IDS = [3, 8, 20]      # non-contiguous variable ids


def build(chk):
    eng = chk.eng
    write_mps = eng.find_body(lambda b: b.name.split('::')[-1] == 'write_mps')
    from_lines = eng.find_body(lambda b: b.name.startswith('mps::parser::') and b.name.endswith('::from_lines'))
    convert = eng.find_body(lambda b: b.name == 'mps::convert::convert')
    B, rd = Build(chk), Rd(chk)
    chk.bounds = {'instances': 'linear, 3 variables with ids 3, 8, 20 (one of them possibly unused), kinds continuous/integer/binary, bounds absent / finite / half-infinite / infinite / negative '
                  '(symbolic endpoints), 0-2 constraints with ids 5, 11 (either equality kind, constant-only allowed), either sense, symbolic coefficients (an explicit zero is a solver case); '
                  'plus quadratic objective / constraint for the refusal path', 'text': 'the written text is split into lines and fed to the real parser'}
    chk.assumptions += ['f64 Display followed by f64::from_str returns the same value (symbolic numbers travel through the text as tokens)', 'lexing modelled as in C17',
                        'linear terms with pairwise distinct ids inside one function (a repeated id inside one function is a separate harness)', 'R-model',
                        'library models trusted and validated natively each run']

    def roundtrip(P, inst):
        from mirsym.models import list_iter
        buf = RString('')
        r = P.it.run_body(write_mps, [ref_to(inst), ref_to(buf)])
        if r.vname != 'Ok':
            return 'write-err', r.f[0], buf.s
        lines = buf.s.split('\n')
        r2 = P.it.run_body(from_lines, [list_iter([RString(x) for x in lines])])
        if r2.vname != 'Ok':
            return 'read-err', r2.f[0], buf.s
        r3 = P.it.run_body(convert, [r2.f[0]])
        if r3.vname != 'Ok':
            return 'read-err', r3.f[0], buf.s
        return 'ok', r3.f[0], buf.s

    BSH = ['none', 'finite', 'lower-only', 'upper-only', 'free', 'negative']

    def mk_bound(P, shape, pre):
        if shape == 'none':
            return None
        lo, hi = P.real(pre + 'lo'), P.real(pre + 'hi')
        if shape == 'finite':
            P.ctx.assume(lo.r <= hi.r)
            return (lo, hi)
        if shape == 'negative':
            P.ctx.assume(z3.And(lo.r <= hi.r, hi.r < 0))
            return (lo, hi)
        if shape == 'lower-only':
            return (lo, PINF)
        if shape == 'upper-only':
            return (NINF, hi)
        return (NINF, PINF)

    def domain(kind, bound):
        """effective value domain (integrality, lower, upper): unspecified bound = unbounded, [0,1] for binary"""
        if kind == 1:
            lo, hi = (ZERO, ONE) if bound is None else bound
            return True, lo, hi, True
        lo, hi = (NINF, PINF) if bound is None else bound
        return kind == 2, lo, hi, False

    def mk(variant):
        def h(P):
            kinds = ([[3, 2, 1][P.choose(3)], [3, 2, 1][P.choose(3)], 3] if variant == 'kinds+bounds' else [3, 2, 1])
            bshapes = [BSH[P.choose(len(BSH))] if (variant == 'kinds+bounds' and i == 0) else ['finite', 'none', 'finite'][i] if variant != 'kinds+bounds' else 'finite' for i in range(3)]
            if variant == 'kinds+bounds':
                bshapes[1] = ['none', 'upper-only'][P.choose(2)]
            bounds = [mk_bound(P, bshapes[i], f'b{i}') for i in range(3)]
            sense = [MINIMIZE, MAXIMIZE][P.choose(2)]
            M = chk.M

            def nz(name, free=False):
                v = P.real(name)
                if not free:
                    P.ctx.assume(v.r != 0)     # only the designated coefficients may be an explicit zero (each one doubles the paths)
                return v

            def lin(pre, ids, allow_const_only=False):
                terms = [(i, nz(f'{pre}_{i}', free=(pre == 'o' and n == 0))) for n, i in enumerate(ids)]
                k = nz(pre + '_k', free=(pre in ('o', 'g0')))
                if not terms and allow_const_only and P.choose(2):
                    return M.function('Constant', k), SymFn([([], k)])
                sf = SymFn([([i], c) for i, c in terms] + [([], k)])
                if variant == 'representations':
                    # the same linear function stored in another arm of the oneof (wire-legal for a linear instance)
                    rep = P.choose(4)
                    if rep == 1:      # quadratic arm without quadratic entries
                        return M.function('Quadratic', M.quadratic([], M.linear(terms, k))), sf
                    if rep == 2:      # quadratic arm with an explicit zero entry
                        return M.function('Quadratic', M.quadratic([(IDS[0], IDS[1], ZERO)], M.linear(terms, k))), sf
                    if rep == 3:      # polynomial arm, degree <= 1, constant monomial first, terms in reverse order
                        return M.function('Polynomial', M.polynomial([([], k)] + [([i], c) for i, c in reversed(terms)])), sf
                return M.function('Linear', M.linear(terms, k)), sf
            used_ids = IDS[:2] if variant != 'all-used' else IDS
            obj = lin('o', used_ids)
            ncons = P.choose(3) if variant == 'constraints' else 2 if variant == 'all-used' else 1
            # 'all-used': the lists of a message need not be sorted by id: constraints listed as 5,11 or 11,5, variables as 3,8,20 or 20,3,8
            cid_order = [5, 11] if (variant != 'all-used' or P.choose(2) == 0) else [11, 5]
            cons = []
            for ci in range(ncons):
                ids = [[IDS[0]], [IDS[1], IDS[0]], []][P.choose(3)] if variant == 'constraints' else [IDS[1], IDS[0]] if variant == 'representations' else [[IDS[0]], [IDS[2], IDS[1]]][ci] if variant == 'all-used' else [IDS[0]]
                cons.append(Con(cid_order[ci], [EQ, LE][P.choose(2)], lin(f'g{ci}', ids, allow_const_only=True), name=f'name{ci}'))
            vorder = [0, 1, 2] if (variant != 'all-used' or P.choose(2) == 0) else [2, 0, 1]
            spec = Inst(sense=sense, objective=obj, vars=[Var(IDS[i], kinds[i], bounds[i], name=f'v{i}') for i in vorder], cons=cons)
            inst = B.instance(spec)

            def witness(model):
                idict = chk.conv.to_dict(B.instance(spec), MSGI, model)
                case = {'op': 'mps_roundtrip', 'instance': chk.hexdict(idict, MSGI)}

                def judge(res):
                    if 'ok' not in res:
                        return True
                    return not concrete_same(idict, chk.unhex(res['ok']['instance'], MSGI))
                return case, judge, f'write_mps + load of {idict}'

            def role(model):
                usedv = set(fn_ids_sym(obj)) | {i for c in cons for i in fn_ids_sym(c.fn)}
                for i, v in enumerate(spec.vars):
                    if v.id in usedv and v.bound is None:
                        return 'used-variable-without-bound-read-back-as-[0,inf)'
                return None
            try:
                status, out, text = roundtrip(P, inst)
            except RustPanic:
                P.fail('no-panic', witness, role)
                return
            if status != 'ok':
                P.fail('linear-instance-roundtrips', witness, role)
                return
            got = rd.instance(out)
            conj = [scalar_eq(got['sense'], sense)]
            # objective: same denotation under the same ids (a term whose coefficient is zero may disappear)
            conj += same_fn(chk, got['objective'], obj[1])
            gc = {c['id']: c for c in got['cons']}
            conj.append(sorted(gc) == sorted(c.id for c in cons))
            for c in cons:
                if c.id in gc:
                    conj.append(scalar_eq(gc[c.id]['equality'], c.eq))
                    conj += same_fn(chk, gc[c.id]['function'], c.fn[1])
            # every used variable: same effective domain.  "used" = occurs with a coefficient that is not zero
            gv = {v['id']: v for v in got['vars']}
            for i, v in enumerate(spec.vars):
                coefs = [cf.r for ids, cf in obj[1].monos if ids == [v.id]] + [cf.r for c in cons for ids, cf in c.fn[1].monos if ids == [v.id]]
                if not coefs:
                    continue
                nonzero = b_or(*[b_not(r_cmp('eq', cf, Fraction(0))) for cf in coefs])
                integer, lo, hi, isbin = domain(v.kind, v.bound)
                if v.id not in gv:
                    conj.append(b_not(nonzero))
                    continue
                g = gv[v.id]
                gint, glo, ghi, gbin = domain(g['kind'], g['bound'])
                if g['kind'] == 1 or isbin:
                    # binary: compare as integer variable with bounds intersected with [0,1] where they are concrete
                    pass
                same_dom = b_and(gint == integer, same_end(glo, lo), same_end(ghi, hi))
                if isbin or gbin:
                    same_dom = b_and(gint == integer, bin_same(g, v, domain))
                conj.append(b_or(b_not(nonzero), same_dom))
            P.require('same-problem', b_and(*conj), witness, role)
        return h

    def same_end(a, b):
        if a.tag != b.tag:
            return False
        if a.tag != 'fin':
            return True
        return r_cmp('eq', a.r, b.r)

    def bin_same(g, v, domain):
        """domains {lo..hi} of 0/1-type variables: equal iff the integer ranges intersected agree; both are compared through their (lo,hi) after clamping is not possible symbolically,
        so require: got is integer-valued with the same lower/upper as the original binary domain"""
        _, lo, hi, _ = domain(v.kind, v.bound)
        _, glo, ghi, _ = domain(g['kind'], g['bound'])
        return b_and(same_end(glo, lo), same_end(ghi, hi))

    for variant in ('kinds+bounds', 'constraints', 'all-used', 'representations'):
        chk.harness(f'roundtrip:{variant}', mk(variant), max_paths=20000)

    # repeated id inside one linear function (wire-legal, not normalised)
    def h_repeated(P):
        M = chk.M
        a, b, k = P.real('a'), P.real('b'), P.real('k')
        obj = (M.function('Linear', M.linear([(3, a), (3, b)], k)), SymFn([([3], a), ([3], b), ([], k)]))
        spec = Inst(sense=MINIMIZE, objective=obj, vars=[Var(3, 3, (ZERO, ONE))])
        inst = B.instance(spec)

        def witness(model):
            idict = chk.conv.to_dict(B.instance(spec), MSGI, model)
            return ({'op': 'mps_roundtrip', 'instance': chk.hexdict(idict, MSGI)},
                    (lambda res: 'ok' not in res or not concrete_same(idict, chk.unhex(res['ok']['instance'], MSGI))), f'write_mps + load of {idict}')
        try:
            status, out, text = roundtrip(P, inst)
        except RustPanic:
            P.fail('no-panic', witness, 'repeated-id-in-linear-function')
            return
        if status != 'ok':
            P.fail('roundtrips', witness, 'repeated-id-in-linear-function')
            return
        got = rd.instance(out)
        P.require('same-problem', b_and(*same_fn(chk, got['objective'], obj[1])), witness, 'repeated-id-in-linear-function')
    chk.harness('roundtrip:repeated-id', h_repeated)

    # refusal: nonlinear objective / constraint named in the error
    def h_refuse(P):
        M = chk.M
        where = P.choose(2)
        q = P.real('q')
        P.ctx.assume(z3.Or(q.r >= z3.Q(1, 1024), q.r <= -z3.Q(1, 1024)))     # above the documented epsilon-dropping threshold
        quad = (M.function('Quadratic', M.quadratic([(3, 8, q)], None)), SymFn([([3, 8], q)]))
        linf = (M.function('Linear', M.linear([(3, ONE)], ZERO)), SymFn([([3], ONE)]))
        spec = Inst(sense=MINIMIZE, objective=quad if where == 0 else linf, vars=[Var(3, 3, (ZERO, ONE)), Var(8, 3, (ZERO, ONE))],
                    cons=[Con(5, LE, quad if where == 1 else linf)])
        inst = B.instance(spec)

        def witness(model):
            idict = chk.conv.to_dict(B.instance(spec), MSGI, model)
            want = 'objective' if where == 0 else 'OMMX_CONSTR_5'
            return ({'op': 'mps_roundtrip', 'instance': chk.hexdict(idict, MSGI)}, (lambda res: not ('write_err' in res and want in res['write_err'])), f'write_mps of nonlinear {idict}')
        try:
            status, out, text = roundtrip(P, inst)
        except RustPanic:
            P.fail('no-panic', witness)
            return
        ok = status == 'write-err' and isinstance(out, Enum) and ((where == 0 and out.vname == 'InvalidObjectiveType') or
                                                                   (where == 1 and out.vname == 'InvalidConstraintType' and deref(out.f[0]).s == 'OMMX_CONSTR_5'))
        P.require('nonlinear-refused-naming-the-offender', ok, witness)
    chk.harness('refusal:nonlinear', h_refuse)
    chk.validation('mps roundtrip', lambda c: validate(c, write_mps, from_lines, convert))


def fn_ids_sym(fn):
    return [] if fn is None else fn[1].ids()


def same_fn(chk, fval, sf):
    got = {}
    for ids, c in (read_monos(chk, fval)[0] if fval is not None else []):
        k = tuple(sorted(ids))
        got[k] = r_add(got.get(k, Fraction(0)), c.r)
    want = {}
    for ids, c in sf.monos:
        k = tuple(sorted(ids))
        want[k] = r_add(want.get(k, Fraction(0)), c.r)
    return [r_cmp('eq', got.get(k, Fraction(0)), want.get(k, Fraction(0))) for k in set(got) | set(want)]


# ----------------------------------------------------------------------------- concrete comparison for the replay judge

def cdomain(v):
    if v['kind'] == 1:
        lo, hi = (0.0, 1.0) if v['bound'] is None else (v['bound']['lower'], v['bound']['upper'])
        return (True, max(lo, 0.0) if lo <= 0 else lo, min(hi, 1.0) if hi >= 1 else hi)
    lo, hi = (-math.inf, math.inf) if v['bound'] is None else (v['bound']['lower'], v['bound']['upper'])
    return (v['kind'] == 2, lo, hi)


def concrete_same(a, b):
    def canon(f):
        return {k: v for k, v in canon_poly(fn_monomials(f)).items()}

    def same(x, y):
        return all(close(x.get(k, 0), y.get(k, 0)) for k in set(x) | set(y))
    if a['sense'] != b['sense'] and not (a['sense'] == 0 and b['sense'] == 1):
        return False
    if not same(canon(a['objective']), canon(b['objective'])):
        return False
    ca, cb = {c['id']: c for c in a['constraints']}, {c['id']: c for c in b['constraints']}
    if sorted(ca) != sorted(cb):
        return False
    for i in ca:
        if ca[i]['equality'] != cb[i]['equality'] or not same(canon(ca[i]['function']), canon(cb[i]['function'])):
            return False
    used = set()
    for f in [a['objective']] + [c['function'] for c in a['constraints']]:
        used |= {i for ids, c in fn_monomials(f) for i in ids if c != 0}
    va, vb = {v['id']: v for v in a['decision_variables']}, {v['id']: v for v in b['decision_variables']}
    for i in used:
        if i not in vb:
            return False
        da, db = cdomain(va[i]), cdomain(vb[i])
        if va[i]['kind'] == 1 or vb[i]['kind'] == 1:
            # 0/1 variables: compare the sets of admissible integers
            ia = {x for x in (0, 1) if da[1] <= x <= da[2]} if va[i]['kind'] == 1 else None
            ib = {x for x in (0, 1) if db[1] <= x <= db[2]} if vb[i]['kind'] == 1 else None
            if ia is None:
                ia = set(range(max(-5, math.ceil(da[1]) if da[1] > -math.inf else -5), min(5, math.floor(da[2]) if da[2] < math.inf else 5) + 1)) if da[0] else None
            if ib is None:
                ib = set(range(max(-5, math.ceil(db[1]) if db[1] > -math.inf else -5), min(5, math.floor(db[2]) if db[2] < math.inf else 5) + 1)) if db[0] else None
            if ia != ib:
                return False
            continue
        if da[0] != db[0] or not close(da[1], db[1]) or not close(da[2], db[2]):
            return False
    return True


def validate(chk, write_mps, from_lines, convert):
    from mirsym.models import list_iter
    rng = chk.rng
    n = 40 if chk.tier == 'quick' else 300
    for t in range(n):
        def q():
            return rng.randint(-12, 12) / 4
        vars_ = []
        for i in IDS:
            kind = rng.choice([1, 2, 3])
            b = rng.choice([None, (q(), None), (None, q()), 'fin', (None, None)])
            if b == 'fin':
                lo = q()
                b = (lo, lo + abs(q()))
            vars_.append({'id': i, 'kind': kind, 'bound': None if b is None else {'lower': -math.inf if b[0] is None else b[0], 'upper': math.inf if b[1] is None else b[1]},
                          'name': None, 'subscripts': [], 'parameters': [], 'description': None, 'substituted_value': None})

        def lin(ids):
            return {'function': ('linear', {'terms': [{'id': i, 'coefficient': q()} for i in ids], 'constant': q()})}
        inst = {'description': None, 'decision_variables': vars_, 'objective': lin(rng.sample(IDS, rng.randint(0, 3))),
                'constraints': [{'id': 5 + 6 * j, 'equality': rng.choice([1, 2]), 'function': lin(rng.sample(IDS, rng.randint(0, 2))), 'subscripts': [], 'parameters': [], 'name': None,
                                 'description': None} for j in range(rng.randint(0, 2))],
                'sense': rng.choice([1, 2]), 'parameters': None, 'constraint_hints': None, 'removed_constraints': [], 'decision_variable_dependency': []}
        case = {'op': 'mps_roundtrip', 'instance': chk.hexdict(inst, MSGI)}
        iv = chk.conv.from_dict(inst, MSGI)

        def norm(d):
            return (d['sense'], sorted((v['id'], v['kind'], None if v['bound'] is None else (v['bound']['lower'], v['bound']['upper'])) for v in d['decision_variables']),
                    sorted((k, float(v)) for k, v in canon_poly(fn_monomials(d['objective'])).items()),
                    sorted((c['id'], c['equality'], sorted((k, float(v)) for k, v in canon_poly(fn_monomials(c['function'])).items())) for c in d['constraints']))

        def py(it, iv=iv):
            buf = RString('')
            r = it.run_body(write_mps, [ref_to(iv), ref_to(buf)])
            if r.vname != 'Ok':
                return 'write-err'
            r2 = it.run_body(from_lines, [list_iter([RString(x) for x in buf.s.split('\n')])])
            if r2.vname != 'Ok':
                return 'read-err'
            r3 = it.run_body(convert, [r2.f[0]])
            return (buf.s, norm(chk.conv.to_dict(r3.f[0], MSGI)))

        def nat(res):
            if 'ok' not in res:
                return 'write-err' if 'write_err' in res else 'read-err'
            return (res['ok']['text'], norm(chk.unhex(res['ok']['instance'], MSGI)))
        chk.validate('write_mps + load', py, case, nat)


if __name__ == '__main__':
    main('C18', build)
