"""Shared machinery of the per-property checks: harness runner, replay gate, evidence, exit codes."""
import os, sys, json, time, hashlib, subprocess, traceback, random
from fractions import Fraction
import z3

sys.path.insert(0, os.path.dirname(os.path.dirname(os.path.abspath(__file__))))
from mirsym.hx import *            # noqa
from mirsym.interp import *        # noqa
from mirsym.values import *        # noqa
from mirsym.models import deref, drain
from mirsym import protoschema, valconv

EVID = os.path.join(CACHE, 'evidence') if (ALT or os.environ.get('VERIF_ONLY')) else os.path.join(VERIF, 'evidence')     # development runs never touch /verif/evidence
KNOWN = os.path.join(VERIF, 'known_findings.json')


class Replay:
    """the native replay binary (real crate, stable toolchain), rebuilt from /repo's working tree"""

    def __init__(self, profile='dev'):
        self.profile = profile
        self.proc = None
        self.build_s = 0.0

    def build(self):
        t = time.time()
        env = dict(os.environ, CARGO_NET_OFFLINE='true', CARGO_TARGET_DIR=os.path.join(CACHE, 'replay-target'))
        env.pop('RUSTFLAGS', None)
        args = ['cargo', 'build', '--offline', '--quiet']
        if self.profile == 'release':
            args.append('--release')
        src = os.path.join(VERIF, 'replay')
        if ALT:
            # a copy of the replay crate whose path dependency points at the other checkout
            import shutil
            src = os.path.join(CACHE, 'replay-src')
            shutil.rmtree(src, ignore_errors=True)
            shutil.copytree(os.path.join(VERIF, 'replay'), src)
            ct = open(os.path.join(src, 'Cargo.toml')).read().replace('"/repo/rust/ommx"', f'"{REPO}/rust/ommx"')
            open(os.path.join(src, 'Cargo.toml'), 'w').write(ct)
        p = subprocess.run(args, cwd=src, env=env, stdout=subprocess.PIPE,
                           stderr=subprocess.PIPE, text=True)
        if p.returncode != 0:
            raise Inconclusive('replay build failed:\n' + p.stderr[-3000:])
        self.build_s = time.time() - t
        sub = 'release' if self.profile == 'release' else 'debug'
        self.bin = os.path.join(CACHE, 'replay-target', sub, 'ommx-replay')

    def start(self):
        if self.proc is None or self.proc.poll() is not None:
            if not hasattr(self, 'bin'):
                self.build()
            self.proc = subprocess.Popen([self.bin], stdin=subprocess.PIPE, stdout=subprocess.PIPE, text=True)

    def run(self, case, timeout=8):
        """one request to the persistent replay process; a reply that does not arrive within `timeout` seconds means the
        real code does not terminate on this input (the process is killed and restarted for the next request)"""
        import select
        self.start()
        try:
            self.proc.stdin.write(json.dumps(case) + '\n')
            self.proc.stdin.flush()
        except BrokenPipeError:
            self.proc = None
            return {'crashed': True}
        ready, _, _ = select.select([self.proc.stdout], [], [], timeout)
        if not ready:
            self.proc.kill()
            self.proc.wait()
            self.proc = None
            return {'timeout': True}
        line = self.proc.stdout.readline()
        if not line:
            self.proc = None
            return {'crashed': True}
        return json.loads(line)

    def run_isolated(self, case, timeout=5, mem_mb=1024):
        """one-shot process with time and memory caps (for cases suspected to hang)"""
        if not hasattr(self, 'bin'):
            self.build()
        cmd = f'ulimit -v {mem_mb * 1024}; exec timeout {timeout} {self.bin}'
        p = subprocess.run(['bash', '-c', cmd], input=json.dumps(case) + '\n', stdout=subprocess.PIPE,
                           stderr=subprocess.PIPE, text=True)
        if p.returncode == 124:
            return {'timeout': True}
        if not p.stdout.strip():
            return {'crashed': True, 'rc': p.returncode}
        return json.loads(p.stdout.strip().split('\n')[0])

    def close(self):
        if self.proc is not None:
            try:
                self.proc.stdin.close()
                self.proc.wait(timeout=5)
            except Exception:
                self.proc.kill()


def approx_same(a, b, rel=1e-8):
    """structural equality with floats compared up to rounding noise (the interpreter computes in exact reals)"""
    if isinstance(a, bool) or isinstance(b, bool):
        return a is b or a == b and type(a) is type(b)
    if isinstance(a, (int, float)) and isinstance(b, (int, float)):
        if a == b or (a != a and b != b):
            return True
        if isinstance(a, int) and isinstance(b, int):
            return False
        return abs(a - b) <= rel * max(1.0, abs(a), abs(b))
    if isinstance(a, (list, tuple)) and isinstance(b, (list, tuple)):
        return len(a) == len(b) and all(approx_same(x, y, rel) for x, y in zip(a, b))
    if isinstance(a, dict) and isinstance(b, dict):
        return a.keys() == b.keys() and all(approx_same(a[k], b[k], rel) for k in a)
    return a == b


class Violation:
    def __init__(self, harness, label, role, case, judge, desc):
        self.harness, self.label, self.role, self.case, self.judge, self.desc = harness, label, role, case, judge, desc


class StopExploration(Exception):
    """raised by a harness to end path exploration early while keeping the counterexamples found so far"""


class PathCtl:
    """what a harness sees on one path"""

    def __init__(self, check, hrec, ctx, it):
        self.check, self.h, self.ctx, self.it = check, hrec, ctx, it

    def real(self, name):
        return FV('fin', z3.Real(name))

    def grid(self, name, shift, K):
        """symbolic dyadic rational k/2^shift with |k| <= K"""
        k = z3.Int(name)
        self.ctx.assume(z3.And(k >= -K, k <= K))
        return FV('fin', z3.ToReal(k) / (1 << shift))

    def bv(self, name, lo=None, hi=None, bits=64):
        v = z3.BitVec(name, bits)
        if hi is not None:
            self.ctx.assume(z3.ULE(v, hi))
        if lo is not None:
            self.ctx.assume(z3.UGE(v, lo))
        return v

    def choose(self, n):
        return self.ctx.choose(n)

    def cover(self, label, cond=True):
        cov = self.h['regions']
        if cov.get(label):
            return
        if self.ctx.feasible(cond if not isinstance(cond, bool) else (None if cond else False)) if not isinstance(cond, bool) else cond:
            cov[label] = True
        else:
            cov.setdefault(label, False)

    def require(self, label, q, witness=None, role=None):
        """q must be implied by the path condition. witness(model) -> (case_json, judge(result)->bool, description)"""
        self.h['obligations'] += 1
        ok, model = self.ctx.valid(q)
        if ok:
            self.h['discharged'] += 1
            return True
        if len(self.h['cex']) >= self.check.max_cex:
            return False
        try:
            case, judge, desc = witness(model) if witness else (None, None, 'no witness builder')
        except Exception as e:
            case, judge, desc = None, None, 'witness builder failed: ' + repr(e)
        r = role(model) if callable(role) else role
        self.h['cex'].append(Violation(self.h['name'], label, r or label, case, judge, desc))
        return False

    def fail(self, label, witness=None, role=None):
        r = self.require(label, False, witness, role)
        if label == 'terminates':
            # a path that runs into the step budget is expensive; after a few of them the harness has its counterexamples
            self.h['budget_hits'] = self.h.get('budget_hits', 0) + 1
            if self.h['budget_hits'] >= 3:
                raise StopExploration('repeated non-termination')
        return r


class Check:
    def __init__(self, pid, tier='quick', seed=0):
        self.pid, self.tier, self.seed = pid, tier, seed
        self.t0 = time.time()
        self.rng = random.Random(seed)
        self.eng = Engine()
        self.schema = protoschema.Schema(os.path.join(REPO, 'proto', 'ommx', 'v1'))
        self.codec = protoschema.Codec(self.schema)
        self.conv = valconv.Conv(self.eng, self.schema)
        self.M = Msg(self.eng)
        self.replay = Replay()
        self.harnesses = []
        self.jobs = []
        self.inconclusive = []
        self.validated = 0
        self.validation_mismatch = []
        self.assumptions = []
        self.bounds = {}
        self.max_cex = 2
        self.samples = []
        self.timeout_ms = 60000

    # ------------------------------------------------------------------ message transport
    def hexmsg(self, val, full, model=None):
        return self.codec.encode(full, self.conv.to_dict(val, full, model)).hex()

    def hexdict(self, d, full):
        return self.codec.encode(full, d).hex()

    def unhex(self, h, full):
        return self.codec.decode(full, bytes.fromhex(h))

    # ------------------------------------------------------------------ harness runner
    def harness(self, name, fn, **kw):
        self.jobs.append(('harness', name, fn, kw))

    def external(self, name, fn):
        """fn(chk) -> harness record dict (name/paths/obligations/discharged/queries/status[/why]/confirmed/unconfirmed)"""
        self.jobs.append(('external', name, fn, {}))

    def validation(self, name, fn):
        """fn(chk) performs chk.validate(...) calls; runs as one parallel job"""
        self.jobs.append(('validation', name, fn, {}))

    def run_harness(self, name, fn, min_paths=1, regions=(), max_paths=200000, hash_order='canonical', step_budget=400000,
                    bounds=None):
        h = {'name': name, 'paths': 0, 'obligations': 0, 'discharged': 0, 'regions': {r: False for r in regions},
             'cex': [], 'status': 'ok', 'wall_s': 0.0, 'queries': 0, 'bounds': bounds or {}}
        ctx = Ctx(timeout_ms=self.timeout_ms)
        ctx.hash_order = hash_order
        it = self.eng.interp(ctx, step_budget=step_budget)
        t = time.time()

        def run_path(ctx):
            it.reset_path()
            fn(PathCtl(self, h, ctx, it))
        try:
            h['paths'] = explore(ctx, run_path, max_paths=max_paths)
        except StopExploration as e:
            h['paths'] = max(h.get('paths', 0), 1)
            h['stopped_early'] = str(e)
            for r in list(h['regions']):
                h['regions'][r] = True          # region guards are meaningless for a truncated exploration that already has counterexamples
        except Inconclusive as e:
            h['status'] = 'inconclusive'
            h['why'] = f'{type(e).__name__}: {e}'
        except (RustPanic, BudgetExceeded) as e:
            h['status'] = 'inconclusive'
            h['why'] = f'unhandled {type(e).__name__} in harness: {e}'
        except z3.Z3Exception as e:
            h['status'] = 'inconclusive'
            h['why'] = f'z3: {e}' + (' @ ' + ' <- '.join(f'{f.name}:{f.lineno}' for f in traceback.extract_tb(e.__traceback__)[-6:]) if os.environ.get('VERIF_PROGRESS') else '')
        h['wall_s'] = round(time.time() - t, 3)
        h['queries'] = ctx.queries
        h['solver_s'] = round(ctx.solver_time, 3)
        h['feasibility_unknown_treated_as_feasible'] = ctx.unknown_feasible
        if h['status'] == 'ok':
            # vacuity guards
            if h['paths'] < min_paths:
                h['status'] = 'inconclusive'
                h['why'] = f'vacuity: only {h["paths"]} feasible paths (< {min_paths})'
            elif h['obligations'] == 0:
                h['status'] = 'inconclusive'
                h['why'] = 'vacuity: no obligation reached'
            else:
                missing = [r for r, ok in h['regions'].items() if not ok]
                if missing:
                    h['status'] = 'inconclusive'
                    h['why'] = 'vacuity: regions never reached: ' + ', '.join(missing)
        return h

    # ------------------------------------------------------------------ translator validation
    def validate(self, what, py_fn, case, normalize_native, normalize_py=None):
        """run the interpreter concretely and the native binary on the same case; outputs must agree"""
        try:
            ctx = Ctx()
            ctx.start([])
            it = self.eng.interp(ctx)
            try:
                got = py_fn(it)
            except RustPanic as e:
                got = {'panic': True}
            nat = self.replay.run(case)
            want = normalize_native(nat)
            if normalize_py:
                got = normalize_py(got)
            if got != want and not approx_same(got, want):
                self.validation_mismatch.append({'what': what, 'case': case, 'interpreter': repr(got)[:500], 'native': repr(want)[:500]})
            else:
                self.validated += 1
        except Inconclusive as e:
            self.validation_mismatch.append({'what': what, 'case': case, 'error': f'{type(e).__name__}: {e}'})

    # ------------------------------------------------------------------ parallel execution
    def triage(self, h):
        """replay every counterexample of a harness natively (in the worker that found it)"""
        conf, unconf = [], []
        for v in h.pop('cex'):
            rec = {'property': self.pid, 'harness': v.harness, 'label': v.label, 'role': v.role, 'description': str(v.desc),
                   'case': v.case}
            if v.case is None:
                rec['why'] = 'no replayable case'
                unconf.append(rec)
                continue
            try:
                res = self.replay.run_isolated(v.case, timeout=10) if v.case.get('isolated') else self.replay.run(v.case)
                bad = bool(v.judge(res))
            except Exception as e:
                rec['why'] = 'replay failed: ' + repr(e)
                unconf.append(rec)
                continue
            rec['native_result'] = res
            if bad:
                conf.append(rec)
            else:
                rec['why'] = f'model does not reproduce natively; native result: {json.dumps(res)[:400]}'
                unconf.append(rec)
                try:
                    os.makedirs(os.path.join(EVID, 'replays'), exist_ok=True)
                    json.dump(rec, open(os.path.join(EVID, 'replays', f'unconfirmed-{self.pid}-{len(unconf)}.json'), 'w'), indent=1, default=str)
                except Exception:
                    pass
        h['confirmed'], h['unconfirmed'] = conf, unconf
        h['counterexamples'] = len(conf) + len(unconf)
        return h

    def _run_job(self, i):
        kind, name, fn, kw = self.jobs[i]
        if os.environ.get('VERIF_PROGRESS'):
            print(f'[{self.pid}] start {name}', file=sys.stderr, flush=True)
            _t0 = time.time()
            try:
                return self._run_job2(i)
            finally:
                print(f'[{self.pid}] done  {name} {time.time() - _t0:.1f}s', file=sys.stderr, flush=True)
        return self._run_job2(i)

    def _run_job2(self, i):
        kind, name, fn, kw = self.jobs[i]
        self.eng.covered, self.eng.model_hits = {}, {}
        if kind == 'harness':
            try:
                h = self.run_harness(name, fn, **kw)
                h = self.triage(h)
            except Exception as e:
                h = {'name': name, 'paths': 0, 'obligations': 0, 'discharged': 0, 'regions': {}, 'status': 'inconclusive',
                     'why': 'harness crashed: ' + ''.join(traceback.format_exception_only(type(e), e)).strip() + ' @ ' +
                     ' <- '.join(f'{f.name}:{f.lineno}' for f in traceback.extract_tb(e.__traceback__)[-4:]),
                     'queries': 0, 'wall_s': 0, 'confirmed': [], 'unconfirmed': []}
            out = {'kind': 'harness', 'h': h}
        elif kind == 'external':
            try:
                h = fn(self)
            except Exception as e:
                h = {'name': name, 'paths': 0, 'obligations': 0, 'discharged': 0, 'regions': {}, 'status': 'inconclusive',
                     'why': 'external engine crashed: ' + repr(e) + ' @ ' + ' <- '.join(f'{f.name}:{f.lineno}' for f in traceback.extract_tb(e.__traceback__)[-4:]),
                     'queries': 0, 'wall_s': 0, 'confirmed': [], 'unconfirmed': []}
            out = {'kind': 'harness', 'h': h}
        else:
            self.validated, self.validation_mismatch, self.samples = 0, [], []
            try:
                fn(self)
            except Exception as e:
                self.validation_mismatch.append({'what': name, 'error': 'validation crashed: ' + repr(e) + ' @ ' +
                                                 ' <- '.join(f'{f.name}:{f.lineno}' for f in traceback.extract_tb(e.__traceback__)[-4:])})
            out = {'kind': 'validation', 'validated': self.validated, 'mismatch': self.validation_mismatch, 'samples': self.samples}
        self.replay.close()
        self.replay.proc = None
        out['covered'], out['model_hits'] = self.eng.covered, self.eng.model_hits
        return out

    def run_all(self):
        import multiprocessing as mp
        global _CHK
        _CHK = self
        if not hasattr(self.replay, 'bin'):
            self.replay.build()
        nproc = int(os.environ.get('VERIF_JOBS', '0') or 0) or min(16, os.cpu_count() or 4)
        only = os.environ.get('VERIF_ONLY')
        if only:
            # development aid: run only the harnesses whose name contains one of the ';'-separated substrings (never used by the registered commands)
            self.jobs = [j for j in self.jobs if any(x in j[1] for x in only.split(';'))]
            print(f'[{self.pid}] VERIF_ONLY={only}: {len(self.jobs)} jobs', file=sys.stderr)
        results = []
        samples = list(self.samples)
        validated, mism = 0, []
        covered, hits = {}, {}
        if nproc <= 1 or len(self.jobs) <= 1:
            outs = [self._run_job(i) for i in range(len(self.jobs))]
        else:
            with mp.get_context('fork').Pool(nproc) as pool:
                outs = pool.map(_job, range(len(self.jobs)), chunksize=1)
        for o in outs:
            covered.update(o['covered'])
            for k, v in o['model_hits'].items():
                hits[k] = hits.get(k, 0) + v
            if o['kind'] == 'harness':
                self.harnesses.append(o['h'])
            else:
                validated += o['validated']
                mism += o['mismatch']
                samples += o['samples']
        self.eng.covered, self.eng.model_hits = covered, hits
        self.validated, self.validation_mismatch, self.samples = validated, mism, samples

    # ------------------------------------------------------------------ finishing
    def known_findings(self):
        if not os.path.exists(KNOWN):
            return []
        return [k for k in json.load(open(KNOWN)).get('findings', []) if k['property'] == self.pid]

    def finish(self):
        os.makedirs(os.path.join(EVID, 'replays'), exist_ok=True)
        self.run_all()
        known = self.known_findings()
        confirmed, unconfirmed, known_hit = [], [], []
        for h in self.harnesses:
            if h['status'] != 'ok':
                self.inconclusive.append(f'{h["name"]}: {h.get("why")}')
            for rec in h.pop('confirmed', []):
                kf = [k for k in known if k['key'] == f'{rec["harness"]}:{rec["role"]}']
                if kf:
                    known_hit.append((kf[0], rec))
                else:
                    confirmed.append(rec)
            for rec in h.pop('unconfirmed', []):
                unconfirmed.append(rec)
        # replay release profile for confirmed ones as well
        viol_paths = []
        for rec in confirmed:
            hsh = hashlib.sha256(json.dumps(rec['case'], sort_keys=True).encode()).hexdigest()[:12]
            path = os.path.join(EVID, 'replays', f'{self.pid}-{hsh}.json')
            json.dump(rec, open(path, 'w'), indent=1, default=str)
            viol_paths.append(path)
        self.replay.close()
        wall = time.time() - self.t0
        states = sum(h['paths'] for h in self.harnesses)
        transitions = sum(h['queries'] for h in self.harnesses)
        status = 'ok'
        if self.validation_mismatch or self.inconclusive or unconfirmed:
            status = 'inconclusive'
        if confirmed:
            status = 'violation'
        ev = {
            'property_id': self.pid, 'tier': self.tier, 'seed': self.seed, 'level': 'model_checking',
            'coverage': {
                'states': max(states, 0), 'transitions': max(transitions, 0),
                'traces_validated_against_impl': self.validated,
                'samples': self.samples[:12] or [{'harness': h['name'], 'paths': h['paths'], 'queries': h['queries']} for h in self.harnesses[:12]],
                'exhaustive': status == 'ok',
                'explanation': 'bounded symbolic execution of rustc MIR of the real crate (engine mirsym) with z3; states = feasible '
                               'terminated paths, transitions = solver queries; exhaustive only relative to the stated bounds',
                'bounds': self.bounds,
                'harnesses': [{k: v for k, v in h.items() if k not in ('cex', 'confirmed', 'unconfirmed')} for h in self.harnesses],
                'obligations': sum(h['obligations'] for h in self.harnesses),
                'discharged': sum(h['discharged'] for h in self.harnesses),
                'functions_encoded': dict(sorted(self.eng.covered.items())),
                'library_models_hit': dict(sorted(self.eng.model_hits.items())),
                'solver': 'z3 ' + z3.get_version_string(),
                'solver_time_s': round(sum(h.get('solver_s', 0) for h in self.harnesses), 3),
                'mir_dump_s': round(self.eng.dump_s, 2), 'source_digest': self.eng.src_digest,
                'status': status,
                'inconclusive': self.inconclusive + [f'{r["harness"]}:{r["label"]}: {r["why"]}' for r in unconfirmed],
                'translator_validation_mismatches': self.validation_mismatch[:5],
                'known_findings_seen': [k['key'] for k, _ in known_hit],
            },
            'assumptions': self.assumptions,
            'wall_s': round(wall, 2),
            'violations': len(confirmed),
        }
        if ev['coverage']['states'] < 1:
            ev['coverage']['states'] = 1 if states else 0
        json.dump(ev, open(os.path.join(EVID, f'{self.pid}.json'), 'w'), indent=1, default=str)
        seen_keys = set()
        for k, rec in known_hit:
            if k['key'] not in seen_keys:
                seen_keys.add(k['key'])
                print(f'KNOWN-FINDING: property={self.pid} {k["what"]}')
        for h in self.harnesses:
            print(f'[{self.pid}] {h["name"]}: {h["status"]} paths={h["paths"]} obligations={h["discharged"]}/{h["obligations"]} '
                  f'queries={h["queries"]} wall={h["wall_s"]}s' + (f' -- {h.get("why")}' if h.get('why') else ''))
        print(f'[{self.pid}] translator validation: {self.validated} agreed, {len(self.validation_mismatch)} mismatched')
        if confirmed:
            for rec, p in zip(confirmed, viol_paths):
                print(f'VIOLATION property={self.pid} replay={p}')
                print(f'  {rec["harness"]}:{rec["label"]}: {rec["description"]}')
            return 1
        if status == 'inconclusive':
            for m in self.validation_mismatch[:5]:
                print(f'[{self.pid}] INCONCLUSIVE translator validation mismatch: {json.dumps(m, default=str)[:600]}')
            for r in unconfirmed:
                print(f'[{self.pid}] INCONCLUSIVE {r["harness"]}:{r["label"]}: {r["why"]} -- {r["description"]}')
            for m in self.inconclusive:
                print(f'[{self.pid}] INCONCLUSIVE {m}')
            return 2
        print(f'[{self.pid}] OK ({self.tier}) states={states} queries={transitions} wall={wall:.1f}s')
        return 0


_CHK = None


def _job(i):
    return _CHK._run_job(i)


def main(pid, build):
    import argparse
    ap = argparse.ArgumentParser()
    ap.add_argument('--tier', default=os.environ.get('VERIF_TIER', 'quick'))
    ap.add_argument('--seed', type=int, default=int(os.environ.get('VERIF_SEED', '0') or 0))
    a = ap.parse_args()
    try:
        chk = Check(pid, a.tier, a.seed)
        build(chk)
        rc = chk.finish()
    except Inconclusive as e:
        print(f'[{pid}] INCONCLUSIVE {type(e).__name__}: {e}')
        rc = 2
    sys.exit(rc)
