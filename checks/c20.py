"""C20 — artifacts return what was stored in them (engine M, OMMX layer over a contract model of ocipkg).

The OMMX side of an artifact — `Builder::add_*` / `build`, `Artifact::get_layer`, the four typed getters, `get_instances`,
`get_solutions`, `get_layer_descriptors`, `get_manifest`, and every annotation setter/getter — is executed from the MIR.
The substrate (`ocipkg`: tar archive, SHA-256, OCI JSON) is external and modelled by its contract: `add_layer` appends a
descriptor (media type, digest, annotations) and stores the blob, digests are equal exactly when blobs are equal,
build + reopen is the identity, `get_layers` returns (descriptor, blob) in manifest order. Blobs are the abstract wire
records of C07 (`encode_to_vec` / `decode` run the real prost-derive output). Digests and the requested digest are
64-bit solver variables, so aliasing between layers is decided by the solver, not sampled."""
import z3
from .common import *
from .oracles import *
from mirsym.interp import val_eq, deep_clone
from mirsym.values import SymString, Blob

KINDS = ['instance', 'solution', 'parametric_instance', 'sample_set']
MSG = {'instance': 'ommx.v1.Instance', 'solution': 'ommx.v1.State', 'parametric_instance': 'ommx.v1.ParametricInstance', 'sample_set': 'ommx.v1.SampleSet'}
ANN = {'instance': 'InstanceAnnotations', 'solution': 'SolutionAnnotations', 'parametric_instance': 'ParametricInstanceAnnotations', 'sample_set': 'SampleSetAnnotations'}
GETTER = {'instance': 'get_instance', 'solution': 'get_solution', 'parametric_instance': 'get_parametric_instance', 'sample_set': 'get_sample_set'}
MEDIA = {'instance': 'application/org.ommx.v1.instance', 'solution': 'application/org.ommx.v1.solution',
         'parametric_instance': 'application/org.ommx.v1.parametric-instance', 'sample_set': 'application/org.ommx.v1.sample-set'}
ANN_T = 'artifact::annotations::'


class A:
    """handles on the MIR bodies of the artifact layer"""

    def __init__(self, chk):
        self.chk, eng = chk, chk.eng
        self.eng = eng

        def meth(name, first=None, pre=('artifact::<impl', 'builder::<impl')):
            return eng.find_body(lambda b: b.name.startswith(pre) and b.name.split('::')[-1] == name and
                                 (first is None or norm_ty(b.param_tys[0]) == first))
        self.meth = meth
        self.add = {k: meth('add_' + k) for k in KINDS}
        self.build = meth('build')
        self.get = {k: meth(GETTER[k]) for k in KINDS}
        self.get_layer = meth('get_layer')
        self.get_instances, self.get_solutions = meth('get_instances'), meth('get_solutions')
        self.get_layer_descriptors = meth('get_layer_descriptors')
        self.get_manifest = meth('get_manifest', '&mut artifact::Artifact<Base>')
        self.media = {k: eng.find_body(lambda b, k=k: b.name == 'v1_' + k) for k in KINDS}
        self.media_artifact = eng.find_body(lambda b: b.name == 'v1_artifact')
        self.new_archive_unnamed = eng.find_body(lambda b: b.name.split('::')[-1] == 'new_archive_unnamed')

    def ann_method(self, kind, name):
        T = ANN_T + ANN[kind]
        return self.eng.find_body(lambda b: b.name.startswith('artifact::annotations::<impl') and b.name.split('::')[-1] == name and b.param_tys and
                                  strip_ref(norm_ty(b.param_tys[0])) == T)

    def new_builder(self, it, artifact_type='ommx'):
        if artifact_type == 'ommx':
            # the crate's own constructor (Builder::new_archive_unnamed) over the contract model of ocipkg, so that the artifact type and any
            # state the builder keeps are what the real code sets up
            try:
                r = it.run_body(self.new_archive_unnamed, [Opaque('PathBuf', 'archive.ommx')])
                if r.vname == 'Ok':
                    return r.f[0]
            except Unsupported:
                pass
            at = Some(it.run_body(self.media_artifact, []))
        elif artifact_type is None:
            at = NONE()
        else:
            at = Some(Enum('MediaType', 15, 'Other', [RString(artifact_type)]))
        return Agg([Agg([at, RVec([]), []], 'OciArtifactBuilder')], 'Builder')


def strip_ref(t):
    t = t.strip()
    for p in ('&mut ', '&'):
        if t.startswith(p):
            return t[len(p):].strip()
    return t


def layer_message(chk, kind, content, i):
    full = MSG[kind]
    if content == 'empty':
        d = {}
    elif kind == 'solution':
        d = {'entries': [(1, FV('fin', z3.Real(f'x{i}')))]}
    else:
        d = {'sense': z3.BitVec(f'sense{i}', 32)}
    return chk.conv.from_dict(d, full)


def layer_annotations(a, it, kind, i):
    ann = Agg([RMap('hash')], ANN_T + ANN[kind])
    if kind in ('instance', 'parametric_instance'):
        it.run_body(a.ann_method(kind, 'set_title'), [ref_to(ann), RString(f't{i}')])
    else:
        it.run_body(a.ann_method(kind, 'set_other'), [ref_to(ann), RString('org.ommx.user.tag'), RString(f'v{i}')])
    return ann


def build_archive(a, P, nmax):
    """explored: number of layers, kind and content of each. returns (artifact value, layers)"""
    chk = a.chk
    it = P.it
    n = P.choose(nmax + 1)
    builder = a.new_builder(it)
    layers = []
    for i in range(n):
        kind = KINDS[P.choose(4)]
        content = ['empty', 'one'][P.choose(2)]
        msg = layer_message(chk, kind, content, i)
        ann = layer_annotations(a, it, kind, i)
        keep = (deep_clone(msg), deep_clone(ann))
        r = it.run_body(a.add[kind], [ref_to(builder), msg, ann])
        if r.vname != 'Ok':
            raise Inconclusive('add_* failed in the model')
        st = builder.f[0]
        layers.append({'kind': kind, 'content': content, 'msg': keep[0], 'ann': keep[1], 'digest': st.f[2][-1][2], 'desc': st.f[2][-1][0]})
    r = it.run_body(a.build, [builder])
    if r.vname != 'Ok':
        raise Inconclusive('build failed in the model')
    return r.f[0], layers


def ann_dict(v, model=None):
    out = {}
    for k, x in deref(v).f[0].entries:
        k, x = deref(k), deref(x)
        out[k.s if isinstance(k, RString) else k] = x.s if isinstance(x, RString) else x
    return out


def archive_witness(chk, layers, model, request):
    case_layers = []
    for L in layers:
        d = chk.conv.to_dict(L['msg'], MSG[L['kind']], model)
        case_layers.append({'kind': L['kind'], 'hex': chk.hexdict(d, MSG[L['kind']]), 'annotations': ann_dict(L['ann'])})
    return {'op': 'artifact', 'layers': case_layers, 'nonce': abs(hash(str(case_layers))) % 10 ** 9, 'request': request}


def requested_index(layers, model, d):
    dv = model.eval(d, model_completion=True).as_long()
    for i, L in enumerate(layers):
        if model.eval(L['digest'], model_completion=True).as_long() == dv:
            return i
    return len(layers)          # the extra all-zero digest the native op also queries


def native_expect(chk, res, case, g):
    """what the property demands for getter g at the requested row of the native result (uses the native digests)"""
    ok = res['ok']
    idx = case['request']
    digs = [l['digest'] for l in ok['layers']]
    want_digest = digs[idx] if idx < len(digs) else None
    cands = [j for j, l in enumerate(case['layers']) if want_digest is not None and digs[j] == want_digest and l['kind'] == g]
    return idx, cands


def getter_harness(a, g, nmax):
    chk = a.chk

    def h(P):
        art, layers = build_archive(a, P, nmax)
        d = z3.BitVec('d', 64)
        req = SymString('sha256:<requested>', d)
        res = P.it.run_body(a.get[g], [ref_to(art), ref_to(req)])
        hits = [b_and(L['digest'] == d) for L in layers if L['kind'] == g]
        e_ok = b_or(*hits) if hits else False

        def witness(model):
            case = archive_witness(chk, layers, model, requested_index(layers, model, d))

            def judge(r):
                if 'ok' not in r:
                    return True
                idx, cands = native_expect(chk, r, case, g)
                got = r['ok']['get'][idx][g]
                if not cands:
                    return 'err' not in got
                if 'ok' not in got:
                    return True
                full = MSG[g]
                return not any(chk.unhex(got['ok']['hex'], full) == chk.unhex(case['layers'][j]['hex'], full) and
                               got['ok']['annotations'] == case['layers'][j]['annotations'] for j in cands)
            kinds = [(L['kind'], L['content']) for L in layers]
            return case, judge, f'{GETTER[g]}(digest of layer {case["request"]}) on an archive with layers {kinds}: a {g} layer with that digest must be returned, any other request must fail'

        def role(model):
            i = requested_index(layers, model, d)
            same = [L['kind'] for L in layers if z3.is_true(model.eval(L['digest'] == d, model_completion=True))]
            return 'same-bytes-layer-of-another-kind-listed-first' if len(set(same)) > 1 else None
        if res.vname == 'Ok':
            P.cover('returned')
            P.require('returned-only-for-a-stored-layer-of-this-kind', e_ok, witness, role)
            msg, ann = deref(res.f[0]).f[0], deref(res.f[0]).f[1]
            alts = [b_and(L['digest'] == d, val_eq(msg, L['msg']), val_eq(ann, L['ann'])) for L in layers if L['kind'] == g]
            P.require('returns-what-was-stored', b_or(*alts) if alts else False, witness, role)
        else:
            P.cover('refused')
            P.require('stored-layer-is-addressable-by-its-digest', b_not(e_ok), witness, role)
    return h


def two_getters_harness(a, nmax, g1):
    """multi-step on one handle: a first typed getter call (any kind, any digest) must not change what a second one returns"""
    chk = a.chk

    def h(P):
        art, layers = build_archive(a, P, nmax)
        g2 = KINDS[P.choose(len(KINDS))]
        d1, d2 = z3.BitVec('d1', 64), z3.BitVec('d2', 64)
        first = P.it.run_body(a.get[g1], [ref_to(art), ref_to(SymString('sha256:<first>', d1))])
        if first.vname == 'Ok':
            P.cover('first-call-returned')
        res = P.it.run_body(a.get[g2], [ref_to(art), ref_to(SymString('sha256:<second>', d2))])
        hits = [b_and(L['digest'] == d2) for L in layers if L['kind'] == g2]
        e_ok = b_or(*hits) if hits else False

        def witness(model):
            case = archive_witness(chk, layers, model, requested_index(layers, model, d2))

            def judge(r):
                # the native op calls every typed getter for every digest on ONE handle: any answer that breaks the rule counts
                if 'ok' not in r:
                    return True
                for idx in range(len(r['ok']['get'])):
                    for g in KINDS:
                        c2 = dict(case, request=idx)
                        _, cands = native_expect(chk, r, c2, g)
                        got = r['ok']['get'][idx].get(g)
                        if got is None:
                            continue
                        if not cands:
                            if 'err' not in got:
                                return True
                            continue
                        if 'ok' not in got:
                            return True
                        full = MSG[g]
                        if not any(chk.unhex(got['ok']['hex'], full) == chk.unhex(case['layers'][j]['hex'], full) and
                                   got['ok']['annotations'] == case['layers'][j]['annotations'] for j in cands):
                            return True
                return False
            kinds = [(L['kind'], L['content']) for L in layers]
            return case, judge, f'{GETTER[g1]} then {GETTER[g2]} on one handle of an archive with layers {kinds}'
        if res.vname == 'Ok':
            P.cover('returned')
            if not P.require('second-call:returned-only-for-a-stored-layer-of-this-kind', e_ok, witness):
                return
            msg, ann = deref(res.f[0]).f[0], deref(res.f[0]).f[1]
            alts = [b_and(L['digest'] == d2, val_eq(msg, L['msg']), val_eq(ann, L['ann'])) for L in layers if L['kind'] == g2]
            P.require('second-call:returns-what-was-stored', b_or(*alts) if alts else False, witness)
        else:
            P.cover('refused')
            P.require('second-call:stored-layer-is-addressable-by-its-digest', b_not(e_ok), witness)
    return h


def lists_harness(a, nmax):
    chk = a.chk

    def h(P):
        art, layers = build_archive(a, P, nmax)
        it = P.it

        def witness(model):
            case = archive_witness(chk, layers, model, 0)

            def judge(r):
                if 'ok' not in r:
                    return True
                ok = r['ok']
                digs = [l['digest'] for l in ok['layers']]
                if [l['media_type'] for l in ok['layers']] != [MEDIA[l['kind']] for l in case['layers']]:
                    return True
                for k in KINDS:
                    if ok['descriptors'][k] != [digs[j] for j, l in enumerate(case['layers']) if l['kind'] == k]:
                        return True
                for name, k in (('instances', 'instance'), ('solutions', 'solution')):
                    exp = [(digs[j], chk.unhex(l['hex'], MSG[k])) for j, l in enumerate(case['layers']) if l['kind'] == k]
                    got = [(x['digest'], chk.unhex(x['hex'], MSG[k])) for x in ok[name]]
                    if exp != got:
                        return True
                return False
            return case, judge, f'layer listing of an archive with layers {[(L["kind"], L["content"]) for L in layers]}'
        P.cover('some-layers', len(layers) > 0)
        P.cover('no-layers', len(layers) == 0)
        for name, body, k in (('get_instances', a.get_instances, 'instance'), ('get_solutions', a.get_solutions, 'solution')):
            r = it.run_body(body, [ref_to(art)])
            if r.vname != 'Ok':
                P.fail(name + '-succeeds', witness)
                continue
            got = deref(r.f[0]).items
            exp = [L for L in layers if L['kind'] == k]
            ok = len(got) == len(exp)
            conds = [ok]
            if ok:
                for x, L in zip(got, exp):
                    x = deref(x)
                    conds += [val_eq(x.f[0], L['desc']), val_eq(x.f[1], L['msg'])]
            P.require(name + '-in-insertion-order', b_and(*conds), witness)
        for k in KINDS:
            mt = it.run_body(a.media[k], [])
            r = it.run_body(a.get_layer_descriptors, [ref_to(art), ref_to(mt)])
            if r.vname != 'Ok':
                P.fail('descriptors-succeed', witness)
                continue
            got = deref(r.f[0]).items
            exp = [L for L in layers if L['kind'] == k]
            P.require('descriptors-by-media-type:' + k, b_and(len(got) == len(exp), *[val_eq(x, L['desc']) for x, L in zip(got, exp)]) if len(got) == len(exp) else False, witness)
        # every layer carries the media type published for its kind
        for L in layers:
            mt = deref(L['desc']).f[0]
            P.require('media-type-of-kind', mt.vname == 'Other' and deref(mt.f[0]).s == MEDIA[L['kind']], witness)
    return h


def manifest_harness(a):
    types = ['ommx', None, 'application/vnd.oci.image.manifest.v1+json', 'application/org.ommx.v1.artifact+json', 'application/org.ommx.v1.instance', '']

    def h(P):
        t = types[P.choose(len(types))]
        it = P.it
        builder = a.new_builder(it, t)
        art = it.run_body(a.build, [builder]).f[0]
        r = it.run_body(a.get_manifest, [ref_to(art)])

        def witness(model):
            if t is None:
                return None, None, 'image without an artifact type (cannot be built through the public API for a native replay)'
            case = {'op': 'artifact_manifest', 'artifact_type': 'application/org.ommx.v1.artifact' if t == 'ommx' else t}
            return case, (lambda res: ('ok' in res) != (t == 'ommx')), f'get_manifest on an image of artifact type {t!r}'
        P.cover('accepted' if r.vname == 'Ok' else 'refused')
        P.require('manifest-accepted-iff-ommx-artifact', (r.vname == 'Ok') == (t == 'ommx'), witness)
        if t == 'ommx':
            mt = deref(art).f[0].f[0]
            P.require('artifact-media-type', deref(deref(mt).f[0].f[0]).s == 'application/org.ommx.v1.artifact', witness)
    return h


# ----------------------------------------------------------------------------- annotations

def documented_keys():
    """annotation keys published in ARTIFACT.md per media type"""
    out, cur = {}, None
    for line in open(os.path.join(REPO, 'ARTIFACT.md')):
        m = re.search(r'`application/org\.ommx\.v1\.([a-z-]+)` blob', line)
        if m:
            cur = m.group(1)
            continue
        m = re.match(r'\s+- `(org\.ommx\.v1\.[a-z-]+\.([a-z]+))`', line)
        if m and cur:
            out.setdefault(cur, {})[m.group(2)] = m.group(1)
        elif not line.startswith(' ') and line.strip():
            cur = None
    return out


FIELDS = {
    'instance': ['title', 'created', 'authors', 'license', 'dataset', 'variables', 'constraints'],
    'parametric_instance': ['title', 'created', 'authors', 'license', 'dataset', 'variables', 'constraints'],
    'solution': ['start', 'end', 'instance', 'solver'],
    'sample_set': ['start', 'end', 'instance', 'solver'],
}
SUFFIX = {'instance': 'instance', 'parametric_instance': 'parametric-instance', 'solution': 'solution', 'sample_set': 'sample-set'}
STRINGS = ['T', '', 'a title, with comma: ünï', ' ']
AUTHORS = [['A. Author', 'b'], ['solo'], [''], [], [' padded', 'trailing ', ' ']]   # comma-free names; surrounding blanks are part of a name


def annotations_harness(a, kind):
    chk = a.chk
    fields = FIELDS[kind]
    doc = documented_keys().get(SUFFIX[kind], {})

    def key_of(f):
        return doc.get(f, f'org.ommx.v1.{SUFFIX[kind]}.{f}')

    def h(P):
        it = P.it
        nf = len(fields)
        prof = P.choose(2 + 2 * nf)
        if prof == 0:
            setf = list(fields)
        elif prof == 1:
            setf = []
        elif prof < 2 + nf:
            setf = [fields[prof - 2]]
        else:
            setf = [f for j, f in enumerate(fields) if j != prof - 2 - nf]
        other = P.choose(2)
        order = P.choose(2)
        ann = Agg([RMap('hash')], ANN_T + ANN[kind])
        vals, native_sets = {}, []
        sidx = P.choose(len(STRINGS)) if any(f in setf for f in ('title', 'license', 'dataset')) else 0
        aidx = P.choose(len(AUTHORS)) if 'authors' in setf else 0
        seq = list(setf) if order == 0 else list(reversed(setf))
        for f in seq:
            if f in ('title', 'license', 'dataset'):
                v = STRINGS[sidx] + ('' if f == 'title' else f[0])
                arg, nat = RString(v), v
            elif f == 'authors':
                v = AUTHORS[aidx]
                arg, nat = RVec([RString(x) for x in v]), v
            elif f in ('variables', 'constraints'):
                v = z3.BitVec('n_' + f, 64)
                arg, nat = v, v
            elif f in ('created', 'start', 'end'):
                v = Agg([z3.Int('t_' + f)], 'DateTime')
                arg, nat = v, v
            else:       # digests
                v = SymString(f'sha256:<{f}>', z3.BitVec('dg_' + f, 64))
                arg, nat = v, v
            vals[f] = v
            native_sets.append((f, nat))
            it.run_body(a.ann_method(kind, 'set_' + f), [ref_to(ann), arg])
        if other:
            it.run_body(a.ann_method(kind, 'set_other'), [ref_to(ann), RString('org.ommx.user.note'), RString('n')])
        snapshot = deep_clone(ann)

        def witness(model):
            sets = []
            exp = {}
            for f, nat in native_sets:
                if f in ('variables', 'constraints'):
                    nat = model.eval(nat, model_completion=True).as_long()
                elif f in ('created', 'start', 'end'):
                    tn = model.eval(nat.f[0], model_completion=True).as_long()
                    secs, ns = (tn // 10 ** 9) % 4102444800, tn % 10 ** 9
                    import datetime
                    nat = datetime.datetime.fromtimestamp(secs, datetime.timezone.utc).strftime('%Y-%m-%dT%H:%M:%S') + f'.{ns:09d}+09:00'
                    exp_created = (secs - 9 * 3600) * 10 ** 9 + ns
                elif f in ('instance', 'solver'):
                    nat = 'sha256:' + '%064x' % model.eval(nat.bv, model_completion=True).as_long()
                sets.append([f, nat])
                exp[f] = nat if f not in ('created', 'start', 'end') else exp_created
            if other:
                sets.append(['other', ['org.ommx.user.note', 'n']])
            case = {'op': 'annotations', 'type': kind, 'set': sets}

            def judge(res):
                if 'ok' not in res:
                    return True
                ok = res['ok']
                for f in fields:
                    if ok.get(f) != exp.get(f):
                        return True
                keys = {key_of(f) for f in exp} | ({'org.ommx.user.note'} if other else set())
                return set(ok['map']) != keys
            return case, judge, f'{ANN[kind]}: setters {seq} then every getter'
        for f in fields:
            r = it.run_body(a.ann_method(kind, f), [ref_to(ann)])
            if f not in setf:
                P.cover('unset-is-error')
                P.require(f'{f}:unset-is-error', r.vname == 'Err', witness,
                          role='getter-of-unset-field')
                continue
            if r.vname != 'Ok':
                P.fail(f'{f}:set-value-is-returned', witness)
                continue
            P.cover('set-is-returned')
            got = deref(r.f[0])
            if f == 'authors':
                names = [x if isinstance(x, str) else deref(x).s if isinstance(deref(x), RString) else deref(x) for x in drain_iter(got)]
                P.require('authors:names-returned', names == vals[f], witness, role='authors:empty-list' if vals[f] == [] else None)
            else:
                P.require(f'{f}:value-returned', val_eq(got, vals[f]), witness)
        # stored under the published keys, nothing else
        keys = {(deref(k).s if isinstance(deref(k), RString) else deref(k)) for k, _ in deref(snapshot).f[0].entries}
        P.require('published-keys', keys == ({key_of(f) for f in setf} | ({'org.ommx.user.note'} if other else set())), witness)
        if other:
            hit = [deref(x) for k, x in deref(snapshot).f[0].entries if (deref(k).s if isinstance(deref(k), RString) else deref(k)) == 'org.ommx.user.note']
            P.require('user-key-kept', len(hit) == 1 and hit[0].s == 'n', witness)
    return h


def drain_iter(itv):
    from mirsym.models import drain
    itv = deref(itv)
    if isinstance(itv, RIter):
        return [deref(x) for x in drain(itv)]
    return [deref(x) for x in itv.items]


# ----------------------------------------------------------------------------- validation against real archives

def validate(chk):
    a = A(chk)
    rng = chk.rng
    n = 6 if chk.tier == 'quick' else 30
    for t in range(n):
        k = rng.randint(0, 3)
        spec = []
        for i in range(k):
            kind = rng.choice(KINDS)
            content = rng.choice(['empty', 'one'])
            if content == 'empty':
                d = {}
            elif kind == 'solution':
                d = {'entries': [(1, float(rng.randint(-3, 3)))]}
            else:
                d = {'sense': rng.randint(0, 2)}
            spec.append((kind, d, {'org.ommx.user.tag': f'v{i}'} if kind in ('solution', 'sample_set') else {f'org.ommx.v1.{SUFFIX[kind]}.title': f't{i}'}))
        req = rng.randint(0, k)
        g = rng.choice(KINDS)
        layers = []
        for kind, d, ann in spec:
            full = MSG[kind]
            val = chk.conv.from_dict(dict(d), full)
            layers.append({'kind': kind, 'hex': chk.hexdict(chk.conv.to_dict(val, full), full), 'annotations': ann})
        case = {'op': 'artifact', 'layers': layers, 'nonce': t + 1000 * chk.seed, 'request': req}

        def py(it, spec=spec, req=req, g=g, layers=layers):
            builder = a.new_builder(it)
            digs = []
            for i, (kind, d, ann) in enumerate(spec):
                msg = chk.conv.from_dict(dict(d), MSG[kind])
                av = layer_annotations(a, it, kind, i)
                it.run_body(a.add[kind], [ref_to(builder), msg, av])
                digs.append(builder.f[0].f[2][-1][2])
                # concrete run: pin every digest to a number that is shared exactly by layers with equal bytes
                first = min(j for j in range(i + 1) if layers[j]['hex'] == layers[i]['hex'])
                it.ctx.assume(digs[-1] == z3.BitVecVal(100 + first, 64))
            art = it.run_body(a.build, [builder]).f[0]
            # concrete digests: the model's equalities are decided by the (now concrete) blobs
            d = digs[req] if req < len(digs) else z3.BitVecVal(0, 64)
            r = it.run_body(a.get[g], [ref_to(art), ref_to(SymString('q', d))])
            lst = it.run_body(a.get_instances, [ref_to(art)])
            out = ('ok', chk.conv.to_dict(deref(r.f[0]).f[0], MSG[g]), ann_dict(deref(r.f[0]).f[1])) if r.vname == 'Ok' else ('err',)
            return (out, len(deref(lst.f[0]).items))

        def nat(res, req=req, g=g):
            if 'ok' not in res:
                return ('native error', res)
            got = res['ok']['get'][req][g]
            out = ('ok', chk.unhex(got['ok']['hex'], MSG[g]), got['ok']['annotations']) if 'ok' in got else ('err',)
            return (out, len(res['ok']['instances']))
        chk.validate('archive', py, case, nat)


def build(chk):
    a = A(chk)
    nmax = 2 if chk.tier == 'quick' else 3
    chk.bounds = {
        'archive': f'0..{nmax} layers, each of any of the four kinds, with a default (empty) message or a message with one solver-variable field (sense over all of i32 / one state entry over the reals), '
                   'annotations set through the real setters; the requested digest and every layer digest are 64-bit solver variables constrained only by "equal iff the encoded bytes are equal"',
        'getters': 'get_instance / get_solution / get_parametric_instance / get_sample_set each for an arbitrary requested digest; get_instances, get_solutions, get_layer_descriptors for every media type',
        'manifest': 'artifact type absent / the OMMX type / four other media types',
        'annotations': 'per annotation type: all fields set, none, each alone, each one missing, in two orders, with and without a user key; counts over all of u64, instants as integer nanoseconds (solver variable), digests as solver-identified tokens, '
                       'strings from a small pool (empty, blank, comma, non-ascii), author lists [two names], [one], [""], []',
    }
    chk.assumptions += [
        'ocipkg (tar archive, SHA-256, OCI JSON manifest, file system) is external and replaced by its contract: add_layer appends descriptor+blob, digests equal iff blobs equal, build+reopen is the identity, '
        'get_layers yields manifest order. The contract is compared with real archives written to and reopened from disk on concrete cases in every run; the substrate itself is not verified',
        'blobs are abstract wire records (C07); byte-level coding trusted to prost',
        'chrono to_rfc3339 / parse_from_rfc3339 / with_timezone are modelled as an exact round trip of the instant; std integer Display/FromStr likewise; serde_json solver parameters (set_parameters/parameters) and the '
        'config blob are outside the claim; sequences of more than 3 layers (property: 6) are outside the claim',
    ]
    for g in KINDS:
        chk.harness('archive:' + GETTER[g], getter_harness(a, g, nmax), regions=['returned', 'refused'], max_paths=60000, step_budget=3000000)
    chk.harness('archive:listing', lists_harness(a, nmax), regions=['some-layers', 'no-layers'], max_paths=20000, step_budget=3000000)
    for g1 in KINDS:     # one job per kind of the first call, so the cores share the work
        chk.harness(f'archive:two-getters-on-one-handle/first={GETTER[g1]}', two_getters_harness(a, 2, g1), regions=['returned', 'refused', 'first-call-returned'], max_paths=120000, step_budget=3000000)
    chk.harness('manifest', manifest_harness(a), regions=['accepted', 'refused'], max_paths=50)
    for k in KINDS:
        chk.harness('annotations:' + k, annotations_harness(a, k), regions=['unset-is-error', 'set-is-returned'], max_paths=4000)
    chk.validation('archive', validate)


if __name__ == '__main__':
    main('C20', build)
