"""C02 — function arithmetic is exact polynomial arithmetic for every operand mix (engine M)."""
import itertools
import z3
from fractions import Fraction
from .common import *
from .oracles import *
from .shapes import *
from mirsym.resolve import parse_callee, local_trait_candidates

EPS = Fraction(2.220446049250313e-16)
KINDS = ['f64', 'dv', 'par', 'lin', 'quad', 'poly', 'func']
TY = {'f64': 'f64', 'dv': '&v1::DecisionVariable', 'par': '&Parameter', 'lin': 'Linear', 'quad': 'Quadratic',
      'poly': 'Polynomial', 'func': 'v1::Function'}
IDS = 3   # ids range over {0,1,2}: every pattern is a separate explored path


def operand_shapes(kind, tier):
    if kind in ('f64', 'dv', 'par'):
        return [()]
    if kind == 'lin':
        return [(0,), (1,), (2,)]
    if kind == 'quad':
        s = [(0, None), (1, None), (1, 1), (2, 0), (2, 1)]
        return s if tier == 'thorough' else [(1, None), (1, 1), (2, 0)]
    if kind == 'poly':
        # (0, 0): a constant split over two monomials with empty id lists (wire-legal, not normalised)
        s = [(), (0,), (1,), (2,), (1, 1), (0, 2), (1, 2), (0, 0), (0, 1, 0)]
        return s if tier == 'thorough' else [(0,), (0, 0), (1, 1), (0, 1, 0), (1, 2)]
    if kind == 'func':
        s = [('constant',), ('linear', 1), ('linear', 2), ('quadratic', 1, 1), ('quadratic', 1, None), ('polynomial', (1, 2)), ('polynomial', (0, 2)), ('polynomial', (0, 0))]
        return s if tier == 'thorough' else [('constant',), ('linear', 2), ('quadratic', 1, 1), ('polynomial', (0, 0)), ('polynomial', (1, 2))]
    raise ValueError(kind)


def coef_dom(P, n):
    """coefficient domain: 0, or magnitude in [2^-10, 2^10] (so that the epsilon-dropping of *inputs* never triggers;
    cancellation inside an operation still does)"""
    import os
    mode = P.h['bounds'].get('coefficients', 'signed')
    c = P.real(n)
    lo, hi = z3.Q(1, 1024), z3.RealVal(1024)
    if mode == 'positive':
        P.ctx.assume(z3.And(c.r >= lo, c.r <= hi))
    else:
        P.ctx.assume(z3.Or(c.r == 0, z3.And(c.r >= lo, c.r <= hi), z3.And(-c.r >= lo, -c.r <= hi)))
    return c


def build_operand(P, kind, shape, pre):
    """-> (value to pass, SymFn, nterms)"""
    chk = P.check
    M = chk.M
    slot = [0]

    def newid():
        slot[0] += 1
        pat = P.h['bounds'].get('id_pattern_' + pre)
        if pat is not None:
            # wide operands: a concrete id pattern (with repeats, unsorted) instead of exploring every assignment
            return pat[(slot[0] - 1) % len(pat)]
        return P.choose(P.h['bounds'].get('id_domain', IDS))
    coef = lambda n: coef_dom(P, n)
    if kind == 'f64':
        c = coef(pre + 'c')
        return c, SymFn([([], c)])
    if kind in ('dv', 'par'):
        i = newid()
        full = 'v1::DecisionVariable' if kind == 'dv' else 'v1::Parameter'
        v = P.it.call(f'<{TY[kind][1:]} as Default>::default', [], None)
        chk.eng.setfield(v, full, 'id', i)
        return ref_to(v), SymFn([([i], ONE)])
    if kind == 'lin':
        l, monos = build_linear(P, shape[0], pre, newid, coef)
        return l, SymFn(monos)
    if kind == 'quad':
        q, monos = build_quadratic(P, shape[0], shape[1], pre, newid, coef)
        # the schema forbids duplicated (row, column) positions
        ents = [(m[0][0], m[0][1]) for m in monos[:shape[0]]]
        if len(set(ents)) != len(ents):
            raise Infeasible()
        return q, SymFn(monos)
    if kind == 'poly':
        p, monos = build_polynomial(P, shape, pre, newid, coef)
        return p, SymFn(monos)
    if kind == 'func':
        sub = {'constant': 'f64', 'linear': 'lin', 'quadratic': 'quad', 'polynomial': 'poly'}[shape[0]]
        if sub == 'f64':
            c = coef(pre + 'c')
            return M.function('Constant', c), SymFn([([], c)])
        ishape = shape[1:] if sub != 'poly' else shape[1]
        v, sf = build_operand(P, sub, ishape, pre)
        return M.function({'lin': 'Linear', 'quad': 'Quadratic', 'poly': 'Polynomial'}[sub], v), sf
    raise ValueError(kind)


def sym_canon(sf):
    d = {}
    for ids, c in sf.monos:
        k = tuple(sorted(ids))
        d[k] = r_add(d.get(k, Fraction(0)), c.r)
    return d


def sym_mul(a, b):
    out = {}
    for ka, ca in a.items():
        for kb, cb in b.items():
            k = tuple(sorted(ka + kb))
            out[k] = r_add(out.get(k, Fraction(0)), r_mul(ca, cb))
    return out


def sym_add(a, b, sign=1):
    out = dict(a)
    for k, v in b.items():
        out[k] = r_add(out.get(k, Fraction(0)), v if sign == 1 else r_neg(v))
    return out


def read_monos(chk, v):
    """monomials [(ids, FV)] of a result value of any of the algebra types (driver-side reader)"""
    v = deref(v)
    E = chk.eng
    if isinstance(v, FV):
        return [([], v)], 'f64'
    ty = v.ty
    if ty == 'Linear':
        out = [([deref(t).f[0]], deref(t).f[1]) for t in E.field(v, 'v1::Linear', 'terms').items]
        out.append(([], E.field(v, 'v1::Linear', 'constant')))
        return out, 'Linear'
    if ty == 'Quadratic':
        rows, cols, vals = (E.field(v, 'v1::Quadratic', n).items for n in ('rows', 'columns', 'values'))
        if not (len(rows) == len(cols) == len(vals)):
            raise RustPanic('quadratic arrays of unequal length in result')
        out = [([r, c], x) for r, c, x in zip(rows, cols, vals)]
        lin = E.field(v, 'v1::Quadratic', 'linear')
        if lin.discr == 1:
            out += read_monos(chk, lin.f[0])[0]
        return out, 'Quadratic'
    if ty == 'Polynomial':
        return [(list(deref(E.field(t, 'v1::Monomial', 'ids')).items), E.field(t, 'v1::Monomial', 'coefficient'))
                for t in E.field(v, 'v1::Polynomial', 'terms').items], 'Polynomial'
    if ty == 'v1::Function':
        inner = E.field(v, 'v1::Function', 'function')
        if inner.discr == 0:
            return [], 'Function(unset)'
        en = inner.f[0]
        m, t = read_monos(chk, en.f[0])
        return m, f'Function::{en.vname}'
    raise Unsupported('result type ' + str(ty))


def degree_capacity(tyname):
    return {'f64': 0, 'Linear': 1, 'Quadratic': 2}.get(tyname.split('::')[-1] if not tyname.startswith('Function') else tyname[10:], 99)


def opnd_json(chk, kind, val, model):
    """concrete operand for the native replay"""
    v = deref(val)
    if kind == 'f64':
        return {'t': 'f64', 'v': valconv.fv_to_float(v, model)}
    if kind in ('dv', 'par'):
        return {'t': kind, 'v': chk.eng.field(v, 'v1::DecisionVariable' if kind == 'dv' else 'v1::Parameter', 'id')}
    full = {'lin': 'ommx.v1.Linear', 'quad': 'ommx.v1.Quadratic', 'poly': 'ommx.v1.Polynomial', 'func': 'ommx.v1.Function'}[kind]
    return {'t': kind, 'v': chk.hexmsg(v, full, model)}, chk.conv.to_dict(v, full, model)


def concrete_monos(kind, oj):
    if kind == 'f64':
        return [((), F(oj['v']))]
    if kind in ('dv', 'par'):
        return [((oj['v'],), Fraction(1))]
    raise AssertionError


def build(chk):
    eng = chk.eng
    ctx0 = Ctx()
    it0 = eng.interp(ctx0)
    ops = [('add', 'Add', '+'), ('sub', 'Sub', '-'), ('mul', 'Mul', '*')]
    defined, undefined = [], []
    for (op, tr, _), a, b in itertools.product(ops, KINDS, KINDS):
        if a == 'f64' and b == 'f64':
            continue
        callee = f'<{TY[a]} as std::ops::{tr}<{TY[b]}>>::{op}'
        c = parse_callee(callee)
        cands = local_trait_candidates(it0, c, TY[a], 2)
        if len(cands) == 1:
            defined.append((op, a, b, callee))
        elif len(cands) == 0:
            undefined.append(f'{a} {op} {b}')
        else:
            raise Inconclusive('ambiguous impl for ' + callee)
    chk.bounds = {'operand kinds': KINDS, 'ops': ['add', 'sub', 'mul', 'neg', 'scalar mul'],
                  'pairs with an impl (read from MIR)': len(defined), 'pairs without impl': undefined,
                  'terms per operand': '<= 2 non-constant terms (+ constant / linear part) with every id pattern; plus wide operands (6-8 terms; 4 terms for products) over concrete unsorted id patterns with repeats for lin/quad/poly/func pairs', 'ids': 'every assignment of {0,1,2} to the id slots (explored paths); {0,1} when an operand pair has more than 5 id slots',
                  'coefficients': 'symbolic reals, each 0 or with magnitude in [2^-10, 2^10] ("signed"); for operand pairs with more than 3 (quick) / 4 (thorough) '
                                  'id slots only positive coefficients in [2^-10, 2^10] ("positive": no cancellation except through sub/neg) - recorded per harness'}
    chk.assumptions += [
        'R-model: exact real arithmetic on finite f64; rounding outside the claim',
        'assertion per monomial: |coefficient(result) - exact coefficient| <= (n+4)*2^10*f64::EPSILON with n the number of input terms and 2^10 the coefficient magnitude bound, which is the '
        'documented epsilon-dropping allowance; for inputs on the dyadic grid {k/8} all intermediates lie in (1/64)Z so the bound forces equality',
        'quadratic operands without duplicated (row, column) positions (schema requirement); Function operands with the oneof set',
        'library models (Vec, BTreeMap, iterators, Option) trusted, validated against the native crate each run',
    ]
    pick = chk.rng

    def mk(op, a, sa, b, sb, callee):
        def h(P):
            va, fa = build_operand(P, a, sa, 'a')
            vb, fb = build_operand(P, b, sb, 'b') if b is not None else (None, None)
            ca = sym_canon(fa)
            if op == 'neg':
                exp = {k: r_neg(v) for k, v in ca.items()}
            else:
                cb = sym_canon(fb)
                exp = sym_add(ca, cb) if op in ('add', 'sum') else sym_add(ca, cb, -1) if op == 'sub' else sym_mul(ca, cb)
            n = len(fa.monos) + (len(fb.monos) if fb else 0)
            tol = (n + 4) * EPS * 1024

            def witness(model):
                ja = opnd_json(chk, a, va, model)
                da = None
                if isinstance(ja, tuple):
                    ja, da = ja
                case = {'op': 'arith', 'kind': op, 'a': ja}
                ma = canon_poly(fn_monomials({'function': (KMAP[a], da)}) if da is not None and a != 'func' else
                                fn_monomials(da) if a == 'func' else concrete_monos(a, ja))
                if b is not None:
                    jb = opnd_json(chk, b, vb, model)
                    db = None
                    if isinstance(jb, tuple):
                        jb, db = jb
                    case['b'] = jb
                    mb = canon_poly(fn_monomials({'function': (KMAP[b], db)}) if db is not None and b != 'func' else
                                    fn_monomials(db) if b == 'func' else concrete_monos(b, jb))
                    want = poly_add(ma, mb) if op in ('add', 'sum') else poly_add(ma, mb, -1) if op == 'sub' else poly_mul(ma, mb)
                else:
                    want = {k: -v for k, v in ma.items()}

                def judge(res):
                    if 'ok' not in res:
                        return True
                    got = canon_poly(fn_monomials(chk.unhex(res['ok']['f'], 'ommx.v1.Function')))
                    for k in set(got) | set(want):
                        if abs(got.get(k, 0) - want.get(k, 0)) > 1e-9 * (1 + abs(want.get(k, 0))):
                            return True
                    return False
                return case, judge, f'{a} {op} {b}: {case} expected {dict((k, float(v)) for k, v in want.items())}'
            try:
                if op == 'neg':
                    res = P.it.call(callee, [va], None)
                elif op in ('sum', 'product'):
                    from mirsym.models import list_iter
                    res = P.it.call(callee, [list_iter([va, vb])], None)
                else:
                    res = P.it.call(callee, [va, vb], None)
            except RustPanic as e:
                P.fail('no-panic', witness)
                return
            monos, rty = read_monos(chk, res)
            got = {}
            for ids, c in monos:
                if c.tag != 'fin':
                    P.fail('finite', witness)
                    return
                k = tuple(sorted(ids))
                got[k] = r_add(got.get(k, Fraction(0)), c.r)
            # all terms representable in the result type + coefficient-wise identity
            conj = []
            for k in set(got) | set(exp):
                d = r_sub(got.get(k, Fraction(0)), exp.get(k, Fraction(0)))
                conj.append(within(d, Fraction(0), tol))
            P.require('coefficientwise', b_and(*conj), witness)
            P.h.setdefault('result_types', {})
            P.h['result_types'][rty] = P.h['result_types'].get(rty, 0) + 1
        return h

    KMAP.update({'lin': 'linear', 'quad': 'quadratic', 'poly': 'polynomial'})
    njobs = 0
    for op, a, b, callee in defined:
        sas, sbs = operand_shapes(a, chk.tier), operand_shapes(b, chk.tier)
        pairs = list(itertools.product(sas, sbs))
        if chk.tier == 'quick' and len(pairs) > 2:
            # quick: the richest shape pair plus one chosen by the seed; thorough: all
            allp = pairs
            pairs = [pairs[-1], pick.choice(pairs[:-1])]
            # always keep the un-normalised split-constant polynomial against the other operand's richest shape
            SPLIT = [(0, 0), ('polynomial', (0, 0))]
            for pr in allp:
                if (pr[0] in SPLIT and pr[1] == sbs[-1]) or (pr[1] in SPLIT and pr[0] == sas[-1]):
                    if pr not in pairs:
                        pairs.append(pr)
            # ... and a quadratic whose optional linear part is absent against one whose linear part is present (both operand orders)
            NOLIN, WITHLIN = [(1, None), ('quadratic', 1, None)], [(1, 1), ('quadratic', 1, 1)]
            for pr in allp:
                if (pr[0] in NOLIN and pr[1] in WITHLIN) or (pr[0] in WITHLIN and pr[1] in NOLIN):
                    if pr not in pairs:
                        pairs.append(pr)
        for sa, sb in pairs:
            slots = count_slots(a, sa) + count_slots(b, sb)
            if slots > (6 if op == 'mul' else 8):
                continue
            # constant monomials of a split-constant polynomial carry a symbolic coefficient each without an id slot: count them as well
            consts = sum(sh.count(0) for k_, sh_ in ((a, sa), (b, sb)) for sh in ([sh_] if k_ == 'poly' else [sh_[1]] if (k_ == 'func' and sh_[0] == 'polynomial') else []))
            mode = 'signed' if slots + max(0, consts - 1) <= (3 if chk.tier == 'quick' else 4) else 'positive'
            chk.harness(f'{op}:{a}{list(sa)}x{b}{list(sb)}', mk(op, a, sa, b, sb, callee),
                        bounds={'callee': callee, 'coefficients': mode, 'id_domain': 3 if slots <= 5 else 2})
            njobs += 1
    # wide operands (the property quantifies over ~8 terms): concrete unsorted id patterns with repeats, symbolic coefficients
    WIDE = {'lin': [(6,), (8,)], 'quad': [(3, 2), (4, 4)], 'poly': [(1, 2, 1, 2, 0, 1), (2, 1, 3, 1, 0, 2, 1)],
            'func': [('linear', 8), ('quadratic', 3, 3), ('polynomial', (1, 2, 1, 2, 0, 1))]}
    PAT_A, PAT_B = [0, 3, 1, 3, 4, 0, 2, 5, 1, 2], [2, 2, 0, 5, 1, 4, 0, 3, 3, 1]
    wide_ops = [(op, a, b, callee) for op, a, b, callee in defined if a in WIDE and b in WIDE]
    for op, a, b, callee in wide_ops:
        for wi in range(2 if chk.tier == 'thorough' else 1):
            sa, sb = WIDE[a][wi % len(WIDE[a])], WIDE[b][(wi + 1) % len(WIDE[b])]
            if op == 'mul':
                # products: 4-term operands (16 partial products), positive coefficients
                sa = {'lin': (4,), 'quad': (2, 1), 'poly': (1, 2, 0, 1), 'func': ('linear', 4)}[a]
                sb = {'lin': (4,), 'quad': (1, 2), 'poly': (1, 1, 2), 'func': ('polynomial', (1, 0, 2))}[b]
                if wi:
                    continue
            if a == 'quad' or (a == 'func' and sa[0] == 'quadratic') or b == 'quad' or (b == 'func' and sb[0] == 'quadratic'):
                pa, pb = [0, 1, 0, 2, 1, 2, 3, 0, 4, 1, 5, 2], [1, 0, 2, 2, 0, 3, 4, 1, 0, 5, 3, 2]     # no duplicated (row, column) position
            else:
                pa, pb = PAT_A, PAT_B
            chk.harness(f'wide:{op}:{a}{list(sa)}x{b}{list(sb)}', mk(op, a, sa, b, sb, callee),
                        bounds={'callee': callee, 'coefficients': 'positive', 'id_pattern_a': pa, 'id_pattern_b': pb})
    # the iterator folds: `impl Sum for Linear`, `impl Sum for Function`, `impl Product for Function` over a two-element iterator
    for op, a, sa, sb in [('sum', 'lin', (1,), (2,)), ('sum', 'lin', (0,), (0,)), ('sum', 'func', ('linear', 1), ('quadratic', 1, None)), ('product', 'func', ('linear', 1), ('linear', 2)),
                          ('product', 'func', ('constant',), ('polynomial', (1, 2)))]:
        tr = 'Sum' if op == 'sum' else 'Product'
        chk.harness(f'{op}:{a}{list(sa)},{a}{list(sb)}', mk(op, a, sa, a, sb, f'<{TY[a]} as std::iter::{tr}>::{op}::<X>'),
                    bounds={'callee': f'<{TY[a]} as {tr}>::{op}', 'coefficients': 'signed'})
    # negation and the term iterators
    for a in KINDS:
        if a == 'f64':
            continue
        callee = f'<{TY[a]} as std::ops::Neg>::neg'
        if len(local_trait_candidates(it0, parse_callee(callee), TY[a], 1)) != 1:
            undefined.append(f'neg {a}')
            continue
        for sa in operand_shapes(a, chk.tier):
            chk.harness(f'neg:{a}{list(sa)}', mk('neg', a, sa, None, None, callee), bounds={'callee': callee})
    for a in ('lin', 'quad', 'poly', 'func'):
        for sa in operand_shapes(a, 'thorough'):
            chk.harness(f'terms:{a}{list(sa)}', mk_iter(chk, a, sa))
    chk.validation('arith', validate)


KMAP = {}


def count_slots(kind, shape):
    if kind == 'f64':
        return 0
    if kind in ('dv', 'par'):
        return 1
    if kind == 'lin':
        return shape[0]
    if kind == 'quad':
        return 2 * shape[0] + (shape[1] or 0)
    if kind == 'poly':
        return sum(shape)
    if kind == 'func':
        sub = {'constant': 'f64', 'linear': 'lin', 'quadratic': 'quad', 'polynomial': 'poly'}[shape[0]]
        return count_slots(sub, shape[1:] if sub != 'poly' else shape[1])


def mk_iter(chk, a, sa):
    """the term iterator of a function yields (sorted ids, coefficient) pairs whose sum is the polynomial"""
    def h(P):
        va, fa = build_operand(P, a, sa, 'a')
        callee = f'<&{TY[a]} as std::iter::IntoIterator>::into_iter'
        itv = P.it.call(callee, [ref_to(va)], None)
        items = drain(P.it.models._into_iter_value(itv))
        got = {}
        sorted_ok = True
        for t in items:
            key, c = t.f
            key = deref(key)
            if isinstance(key, Enum):          # Linear yields (Option<u64>, f64)
                ids = [key.f[0]] if key.discr == 1 else []
            else:
                ids = list(deref(key.f[0]).items)
            if ids != sorted(ids):
                sorted_ok = False
            k = tuple(ids)
            got[k] = r_add(got.get(k, Fraction(0)), c.r)
        exp = sym_canon(fa)
        conj = [sorted_ok]
        for k in set(got) | set(exp):
            conj.append(r_cmp('eq', got.get(k, Fraction(0)), exp.get(k, Fraction(0))))
        P.require('iterator-sum', b_and(*conj))
    return h


def validate(chk):
    """translator validation: interpreter (concrete, dyadic inputs) vs native for the operator impls"""
    from .c01 import random_function_dict
    rng = chk.rng
    n = 80 if chk.tier == 'quick' else 800
    kinds = ['f64', 'lin', 'quad', 'poly', 'func', 'dv', 'par']
    full = {'lin': 'ommx.v1.Linear', 'quad': 'ommx.v1.Quadratic', 'poly': 'ommx.v1.Polynomial', 'func': 'ommx.v1.Function'}
    arm = {'lin': 'linear', 'quad': 'quadratic', 'poly': 'polynomial'}

    def rnd(kind):
        if kind == 'f64':
            v = rng.randint(-16, 16) / 8
            return {'t': 'f64', 'v': v}, float_fv(v)
        if kind in ('dv', 'par'):
            i = rng.randint(0, 2)
            return {'t': kind, 'v': i}, ('id', kind, i)
        if kind == 'func':
            sh = rng.choice([('constant',), ('linear', 2), ('quadratic', 2, 1), ('polynomial', (1, 2, 0))])
            d = random_function_dict(rng, sh, idmax=2, K=16, shift=3)
            if d['function'][0] == 'quadratic':
                dedup_quadratic(d['function'][1])
            return {'t': 'func', 'v': chk.hexdict(d, full['func'])}, chk.conv.from_dict(d, full['func'])
        sh = {'lin': ('linear', rng.randint(0, 3)), 'quad': ('quadratic', rng.randint(0, 3), rng.choice([None, 0, 2])),
              'poly': ('polynomial', tuple(rng.randint(0, 2) for _ in range(rng.randint(0, 3))))}[kind]
        d = random_function_dict(rng, sh, idmax=2, K=16, shift=3)['function'][1]
        if kind == 'quad':
            dedup_quadratic(d)
        return {'t': kind, 'v': chk.hexdict(d, full[kind])}, chk.conv.from_dict(d, full[kind])

    for t in range(n):
        op = rng.choice(['add', 'mul', 'sub'])
        a, b = rng.choice(kinds), rng.choice(kinds)
        if a == 'f64' and b == 'f64':
            continue
        tr = {'add': 'Add', 'mul': 'Mul', 'sub': 'Sub'}[op]
        callee = f'<{TY[a]} as std::ops::{tr}<{TY[b]}>>::{op}'
        ja, xa = rnd(a)
        jb, xb = rnd(b)
        case = {'op': 'arith', 'kind': op, 'a': ja, 'b': jb}

        def py(it, xa=xa, xb=xb, callee=callee):
            from mirsym.resolve import parse_callee, local_trait_candidates
            if not local_trait_candidates(it, parse_callee(callee), parse_callee(callee).self_ty, 2):
                return 'undefined'
            va, vb = mat(chk, it, xa), mat(chk, it, xb)
            r = it.call(callee, [va, vb], None)
            monos, rty = read_monos(chk, r)
            return (rty.split('::')[0], sorted((tuple(ids), float(c.r)) for ids, c in monos if c.r != 0))

        def nat(res):
            if res.get('undefined'):
                return 'undefined'
            if 'ok' not in res:
                return res
            fd = chk.unhex(res['ok']['f'], 'ommx.v1.Function')
            ty = res['ok']['ty'].split('::')[-1]
            ty = {'f64': 'f64', 'Linear': 'Linear', 'Quadratic': 'Quadratic', 'Polynomial': 'Polynomial', 'Function': 'Function'}[ty]
            return (ty, sorted((tuple(ids), float(c)) for ids, c in fn_monomials(fd) if c != 0))
        chk.validate(f'{a} {op} {b}', py, case, nat)
        if t < 3:
            chk.samples.append({'validation_case': case})


def dedup_quadratic(q):
    seen, keep = set(), []
    for i, (r, c) in enumerate(zip(q['rows'], q['columns'])):
        if (r, c) not in seen:
            seen.add((r, c))
            keep.append(i)
    for k in ('rows', 'columns', 'values'):
        q[k] = [q[k][i] for i in keep]


def float_fv(v):
    return FV('fin', Fraction(v))


def mat(chk, it, x):
    if isinstance(x, tuple) and x[0] == 'id':
        full = 'v1::DecisionVariable' if x[1] == 'dv' else 'v1::Parameter'
        v = it.call(f'<{TY[x[1]][1:]} as Default>::default', [], None)
        chk.eng.setfield(v, full, 'id', x[2])
        return ref_to(v)
    from mirsym.interp import deep_clone
    return deep_clone(x)


if __name__ == '__main__':
    main('C02', build)
