"""Engine K: run Kani harnesses of /verif/kani against the compiled crate; replay failures natively through
Kani's concrete playback (the harness re-executed as an ordinary test with the solver's values)."""
import os, re, shutil, subprocess, time, json
from .common import VERIF, CACHE, EVID

from mirsym.hx import ALT, REPO
KANI_DIR = os.path.join(VERIF, 'kani')
TARGET = os.path.join(CACHE, 'kani-target')
if ALT:
    # development aid: a copy of the harness crate whose path dependency points at the other checkout
    KANI_DIR = os.path.join(CACHE, 'kani-src')
    shutil.rmtree(KANI_DIR, ignore_errors=True)
    shutil.copytree(os.path.join(VERIF, 'kani'), KANI_DIR, ignore=shutil.ignore_patterns('target'))
    _ct = open(os.path.join(KANI_DIR, 'Cargo.toml')).read().replace('"/repo/rust/ommx"', f'"{REPO}/rust/ommx"')
    open(os.path.join(KANI_DIR, 'Cargo.toml'), 'w').write(_ct)


def _env():
    env = dict(os.environ, CARGO_NET_OFFLINE='true')
    env.pop('RUSTFLAGS', None)
    env.pop('RUSTUP_TOOLCHAIN', None)
    return env


def _run_group(cmd, cwd, timeout):
    """run a command in its own process group; on timeout the whole group (cargo-kani, kani-driver, cbmc) is killed"""
    import signal
    p = subprocess.Popen(cmd, cwd=cwd, env=_env(), stdout=subprocess.PIPE, stderr=subprocess.STDOUT, text=True, start_new_session=True)
    try:
        out, _ = p.communicate(timeout=timeout)
        return out, False
    except subprocess.TimeoutExpired:
        try:
            os.killpg(p.pid, signal.SIGKILL)
        except ProcessLookupError:
            pass
        out, _ = p.communicate()
        return out or '', True


def run_kani(harnesses, jobs=12, timeout=1500):
    shutil.copy(os.path.join(REPO, 'Cargo.lock'), os.path.join(KANI_DIR, 'Cargo.lock'))
    cmd = ['cargo', 'kani', '--target-dir', TARGET, '-j', str(jobs), '--output-format', 'terse']
    for h in harnesses:
        cmd += ['--harness', h]
    t = time.time()
    out, timed_out = _run_group(cmd, KANI_DIR, timeout)
    if timed_out:
        return {'error': 'timeout', 'wall_s': time.time() - t, 'out': out[-3000:]}
    wall = time.time() - t
    res = {'wall_s': wall, 'failed': [], 'ok': [], 'times': {}, 'covers': {}}
    m = re.search(r'Complete - (\d+) successfully verified harnesses, (\d+) failures, (\d+) total', out)
    if not m:
        res['error'] = 'no summary'
        res['out'] = out[-4000:]
        return res
    res['failed'] = [x.split('::')[-1] for x in re.findall(r'Verification failed for - (\S+)', out)]
    # per-thread attribution of times
    cur = {}
    for line in out.split('\n'):
        mm = re.match(r'Thread (\d+): Checking harness (\S+?)\.\.\.', line)
        if mm:
            cur[mm.group(1)] = mm.group(2).split('::')[-1]
    res['ok'] = [h for h in harnesses if h not in res['failed']]
    if int(m.group(3)) != len(harnesses) or int(m.group(2)) != len(res['failed']):
        res['error'] = f'summary mismatch: {m.group(0)}'
    if 'Status: ERROR' in out or 'CBMC failed' in out or 'unwinding assertion' in out and 'FAILURE' in out:
        res['error'] = res.get('error', '') + ' cbmc error/unwinding failure in output'
    res['tail'] = out[-1500:]
    return res


def playback(harness):
    """concrete playback of a failing harness: returns (reproduced: bool, test_source: str, log: str)"""
    work = os.path.join(CACHE, 'kani-playback')
    os.makedirs(os.path.join(work, 'src'), exist_ok=True)      # work/target is kept between runs as a build cache
    for f in ('Cargo.toml', 'Cargo.lock', os.path.join('src', 'lib.rs')):
        shutil.copy(os.path.join(KANI_DIR, f), os.path.join(work, f))
    cmd = ['cargo', 'kani', '--target-dir', TARGET, '--harness', harness, '-Z', 'concrete-playback', '--concrete-playback=inplace', '--output-format', 'terse']
    p = subprocess.run(cmd, cwd=work, env=_env(), stdout=subprocess.PIPE, stderr=subprocess.STDOUT, text=True, timeout=900)
    src = open(os.path.join(work, 'src', 'lib.rs')).read()
    m = re.search(r'#\[test\]\s*fn (kani_concrete_playback_\w+)\(\) \{.*?concrete_playback_run\([^;]*;\s*\}', src, re.S)
    if not m:
        return False, '', 'no playback test generated:\n' + p.stdout[-1500:]
    test_src = m.group(0)
    q = subprocess.run(['cargo', 'kani', 'playback', '-Z', 'concrete-playback', '--', m.group(1)], cwd=work, env=_env(),
                       stdout=subprocess.PIPE, stderr=subprocess.STDOUT, text=True, timeout=900)
    reproduced = bool(re.search(r'test result: FAILED|panicked at', q.stdout)) and 'error: could not compile' not in q.stdout
    return reproduced, test_src, q.stdout[-2500:]
