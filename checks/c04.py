"""C04 — substitution is function composition and dependent variables are recovered (engine M)."""
import itertools
import z3
from fractions import Fraction
from .common import *
from .oracles import *
from .shapes import *
from .instances import *
from . import c05
from .c02 import read_monos, sym_canon, sym_mul, sym_add
from .c03 import build_function_choose, dom as dom3
from mirsym.interp import deep_clone

EPS = Fraction(2.220446049250313e-16)
MSGF, MSGS, MSGI = 'ommx.v1.Function', 'ommx.v1.State', 'ommx.v1.Instance'


def dom(P, name, mode='signed'):
    c = P.real(name)
    lo, hi = z3.Q(1, 16), z3.RealVal(16)
    if mode == 'positive':
        P.ctx.assume(z3.And(c.r >= lo, c.r <= hi))
    else:
        P.ctx.assume(z3.Or(c.r == 0, z3.And(c.r >= lo, c.r <= hi), z3.And(-c.r >= lo, -c.r <= hi)))
    return c


def compose(fcanon, reps):
    """(driver oracle) substitute canonical polynomials reps[k] for variable k in fcanon, simultaneously"""
    out = {}
    for ids, c in fcanon.items():
        term = {(): c}
        for i in ids:
            term = sym_mul(term, reps[i] if i in reps else {(i,): Fraction(1)})
        out = sym_add(out, term)
    return out


def rep_shapes(tier):
    s = [('constant',), ('linear', 1), ('linear', 2), ('quadratic', 1, None)]
    if tier == 'thorough':
        s += [('quadratic', 1, 1), ('polynomial', (2,)), ('polynomial', (1, 1))]
    return s


def f_shapes(tier):
    s = [('constant',), ('linear', 1), ('linear', 2), ('quadratic', 1, None), ('quadratic', 1, 1), ('polynomial', (2,)), ('polynomial', (1, 2)), ('none',)]
    if tier == 'thorough':
        s += [('quadratic', 2, None), ('polynomial', (2, 2)), ('polynomial', (0, 1, 2))]
    return s


def build(chk):
    eng = chk.eng
    sub_f = eng.method('substitute', first_param='&v1::Function')
    sub_i = eng.method('substitute', first_param='&mut v1::Instance')
    ev_i = eng.method('evaluate', first_param='&v1::Instance')
    evdep = eng.find_body(lambda b: b.name.split('::')[-1] == 'eval_dependencies')
    B, rd = Build(chk), Rd(chk)
    chk.bounds = {'function level': '(thorough: f with two degree-2 monomials is not combined with the 2-monomial quadratic replacement nor with two 2-term replacements: z3 returns unknown there) f with <= 2 (quick) / 3 (thorough) monomials of degree <= 2, ids over {0,1,2}; replacement maps with 1..2 entries (keys 0 / 0,1), '
                  'each replacement of degree <= 2 with <= 2 terms; one entry: over ids {0,2} (own key included); two entries: replacement 0 over {1,2}, replacement 1 over {0,2} (each may mention the other key), both iteration orders of the replacement map',
                  'instance level': '3 variables, objective + active + removed constraint, one or two successive substitutions (chain)',
                  'eval_dependencies': 'every directed graph on <= 3 dependent variables (each optionally using the base variable), plus 4 dependents: quick = the 64 DAGs with edges from lower to higher id, thorough = every directed graph (base variable used by the sinks); base variable present/absent; every iteration order of the dependency map',
                  'coefficients': '0 or magnitude in [2^-4, 2^4]; instance-level harness: positive coefficients in [2^-4, 2^4] and three concrete dyadic states (cancellation inside substitution is covered at function level)'}
    chk.assumptions += ['R-model; coefficient-wise identity up to 64*2^16*f64::EPSILON (epsilon-dropping inside the algebra)',
                        'HashMap iteration order modelled as an arbitrary permutation (explored exhaustively where stated)',
                        'library models trusted and validated natively each run']

    # ---------------------------------------------------------------- function level
    def mk_fn(fshape, rshapes):
        def h(P):
            nslots = sum(1 for _ in range(0))
            fval, sf = build_function_choose(P, fshape, lambda n: dom(P, n))
            reps, repvals = {}, []
            for k, rs in enumerate(rshapes):
                # a replacement may mention replaced variables: with one entry (key 0) it ranges over ids {0,2} (its own key included);
                # with two entries (keys 0,1) replacement 0 ranges over {1,2} and replacement 1 over {0,2}, so each may mention the
                # other's key (swap-like maps) and simultaneous differs from one-after-the-other in either iteration order
                two = [0, 2] if len(rshapes) == 1 else ([1, 2] if k == 0 else [0, 2])
                rv, rsf = build_rep(P, rs, f'r{k}', two)
                reps[k] = sym_canon(rsf)
                repvals.append([k, rv])
            rmap = RMap('hash', False, [[k, v] for k, v in repvals])

            def witness(model):
                fd = chk.conv.to_dict(fval, MSGF, model)
                rd_ = {str(k): chk.hexmsg(v, MSGF, model) for k, v in repvals}
                rdicts = {k: chk.conv.to_dict(v, MSGF, model) for k, v in repvals}
                case = {'op': 'substitute_function', 'f': chk.hexdict(fd, MSGF), 'replacements': rd_}
                if len(repvals) > 1:
                    case['tries'] = 60     # native HashMap order is random: every distinct outcome over 60 fresh maps is judged
                want = {}
                fc = canon_poly(fn_monomials(fd))
                rc = {k: canon_poly(fn_monomials(v)) for k, v in rdicts.items()}
                for ids, c in fc.items():
                    term = {(): c}
                    for i in ids:
                        term = poly_mul(term, rc[i] if i in rc else {(i,): Fraction(1)})
                    want = poly_add(want, term)

                def judge(res):
                    if 'variants' in res:
                        return any(judge(v) for v in res['variants'])
                    if 'ok' not in res:
                        return True
                    got = canon_poly(fn_monomials(chk.unhex(res['ok']['f'], MSGF)))
                    return any(abs(got.get(k, 0) - want.get(k, 0)) > 1e-9 * (1 + abs(want.get(k, 0))) for k in set(got) | set(want))
                return case, judge, f'substitute({fd}, {rdicts}) expected {dict((k, float(v)) for k, v in want.items())}'
            try:
                res = P.it.run_body(sub_f, [ref_to(fval), ref_to(rmap)])
            except RustPanic:
                P.fail('no-panic', witness)
                return
            if res.vname != 'Ok':
                P.fail('substitute-ok', witness)
                return
            got = {}
            for ids, c in read_monos(chk, res.f[0])[0]:
                k = tuple(sorted(ids))
                got[k] = r_add(got.get(k, Fraction(0)), c.r)
            exp = compose(sym_canon(sf), reps)
            tol = 64 * EPS * 2 ** 16
            conj = []
            for k in set(got) | set(exp):
                d = r_sub(got.get(k, Fraction(0)), exp.get(k, Fraction(0)))
                conj.append(within(d, Fraction(0), tol))
            P.require('composition', b_and(*conj), witness)
        return h

    def build_rep(P, shape, pre, idset):
        M = chk.M
        newid = lambda: idset[P.choose(len(idset))]
        coef = lambda n: dom(P, n, 'positive')
        kind = shape[0]
        if kind == 'constant':
            c = coef(pre + 'c')
            return M.function('Constant', c), SymFn([([], c)])
        if kind == 'linear':
            v, m = build_linear(P, shape[1], pre, newid, coef)
            return M.function('Linear', v), SymFn(m)
        if kind == 'quadratic':
            v, m = build_quadratic(P, shape[1], shape[2], pre, newid, coef)
            return M.function('Quadratic', v), SymFn(m)
        v, m = build_polynomial(P, shape[1], pre, newid, coef)
        return M.function('Polynomial', v), SymFn(m)

    rs = rep_shapes(chk.tier)

    def beyond_z3(fs, reps):
        # two degree-2 monomials in f together with a 2-monomial quadratic replacement (or two 2-term replacements) give degree-4
        # identities in ~10 symbolic reals on which z3 answers unknown within the per-query limit: left out of the thorough tier
        big = fs in (('quadratic', 2, None), ('polynomial', (2, 2)))
        two = [('linear', 2), ('polynomial', (1, 1))]
        if big and (('quadratic', 1, 1) in reps or (len(reps) == 2 and all(r in two for r in reps))):
            return True
        # two-entry maps whose replacements may mention each other's key: a degree-2 monomial in f together with the 2-monomial quadratic
        # replacement gives degree-4 identities on which z3 answers unknown ("incomplete (theory arithmetic)")
        deg2 = fs[0] == 'quadratic' or (fs[0] == 'polynomial' and 2 in fs[1])
        return len(reps) == 2 and deg2 and ('quadratic', 1, 1) in reps
    for fs in f_shapes(chk.tier):
        for r0 in rs:
            if beyond_z3(fs, [r0]):
                continue
            chk.harness(f'function:{"/".join(map(str, fs))}<-[{"/".join(map(str, r0))}]', mk_fn(fs, [r0]))
        pairs = list(itertools.product(rs, rs))
        if chk.tier == 'quick':
            pairs = chk.rng.sample(pairs, 3)
        for r0, r1 in pairs:
            if beyond_z3(fs, [r0, r1]):
                continue
            chk.harness(f'function:{"/".join(map(str, fs))}<-[{"/".join(map(str, r0))}],[{"/".join(map(str, r1))}]', mk_fn(fs, [r0, r1]), hash_order='all')

    # ---------------------------------------------------------------- eval_dependencies: all graphs, all orders
    def mk_deps(nd, dag_only=False, first_edges=None, via_instance=False):
        dep_ids = [10 + i for i in range(nd)]

        def h(P):
            base_present = P.choose(2)
            edges = {}
            for i in dep_ids:
                if first_edges is not None and i == dep_ids[0]:
                    edges[i] = [j for j, b in zip(dep_ids[1:], first_edges) if b]
                    continue
                edges[i] = [j for j in dep_ids if j != i and (not dag_only or j > i) and P.choose(2)]
            if nd >= 4:
                usebase = {i: len(edges[i]) == 0 for i in dep_ids}
            else:
                usebase = {i: P.choose(2) for i in dep_ids}
            fns = {}
            for i in dep_ids:
                terms = [(j, dom(P, f'c{i}_{j}', 'positive')) for j in edges[i]] + ([(0, dom(P, f'c{i}_b', 'positive'))] if usebase[i] else [])
                k = dom(P, f'k{i}', 'positive')
                fns[i] = (chk.M.function('Linear', chk.M.linear(terms, k)), SymFn([([j], c) for j, c in terms] + [([], k)]))
            declared = via_instance and bool(P.choose(2))
            x0 = dom(P, 'x0')
            st = B.state([(0, x0)] if base_present else [])
            st0 = B.state([(0, x0)] if base_present else [])   # snapshot for the witness (eval_dependencies mutates st)
            deps = RMap('hash', False, [[i, fns[i][0]] for i in dep_ids])
            # oracle: values by recursion over the concrete graph
            val, state = {}, {}

            def value(i, stack=()):
                if i == 0:
                    return x0.r if base_present else None
                if i in stack:
                    return None
                if i in val:
                    return val[i]
                tot = Fraction(0)
                for ids, c in fns[i][1].monos:
                    t = c.r
                    for j in ids:
                        vj = value(j, stack + (i,))
                        if vj is None:
                            val[i] = None
                            return None
                        t = r_mul(t, vj)
                    tot = r_add(tot, t)
                val[i] = tot
                return tot
            # a value computed under a cycle-cutting stack must not be cached: recompute cleanly per node
            wants = {}
            for i in dep_ids:
                val.clear()
                wants[i] = value(i)
            solvable = all(w is not None for w in wants.values())

            def witness(model):
                dd = {str(i): chk.hexmsg(fns[i][0], MSGF, model) for i in dep_ids}
                case = {'op': 'eval_dependencies_via_instance', 'deps': dd, 'state': chk.hexmsg(st0, MSGS, model), 'ids': dep_ids}
                if via_instance:
                    spec_w = Inst(objective=None, vars=[Var(0, 3)] + ([Var(i, 3) for i in dep_ids] if declared else []))
                    iw = B.instance(spec_w)
                    eng.setfield(iw, 'v1::Instance', 'decision_variable_dependency', RMap('hash', False, [[i, fns[i][0]] for i in dep_ids]))
                    case = {'op': 'evaluate_instance_orders', 'instance': chk.hexmsg(iw, MSGI, model), 'state': chk.hexmsg(st0, MSGS, model)}
                wv = None if not solvable else {i: float(valconv.fv_to_fraction(FV('fin', wants[i]), model)) for i in dep_ids}

                def judge(res):
                    for v in res.get('variants', [res]):
                        if wv is None:
                            if 'err' not in v:
                                return True
                        elif 'ok' not in v:
                            return True
                        else:
                            got = {k: (x if not isinstance(x, str) else float(x.replace('inf', 'inf'))) for k, x in v['ok']}
                            if any(not close(got.get(i, 1e300), wv[i], rel=1e-6) for i in dep_ids):
                                return True
                    return False
                return case, judge, f'dependencies {dict((i, (edges[i], usebase[i])) for i in dep_ids)} base_present={base_present}: expected {wv}'
            try:
                if via_instance:
                    spec_i = Inst(objective=None, vars=[Var(0, 3)] + ([Var(i, 3) for i in dep_ids] if declared else []))
                    inst_i = B.instance(spec_i)
                    eng.setfield(inst_i, 'v1::Instance', 'decision_variable_dependency', deps)
                    res = P.it.run_body(ev_i, [ref_to(inst_i), ref_to(st)])
                else:
                    res = P.it.run_body(evdep, [ref_to(deps), ref_to(st)])
            except RustPanic:
                P.fail('no-panic', witness)
                return
            except BudgetExceeded:
                P.fail('terminates', witness)
                return
            if via_instance and not base_present and res.vname == 'Ok' and solvable is False:
                pass
            if res.vname == 'Ok':
                P.cover('ok')
                if not solvable:
                    P.fail('err-when-cyclic-or-ungrounded', witness)
                    return
                if via_instance:
                    sol_ = rd.solution(res.f[0].f[0])
                    got = dict(sol_['state'] or [])
                    if not base_present:
                        got.pop(0, None)      # variable 0 is declared: it is reported with its default value
                else:
                    got = dict((e[0], e[1]) for e in deref(eng.field(st, 'v1::State', 'entries')).entries)
                conj = [set(got) == set(dep_ids) | ({0} if base_present else set())]
                for i in dep_ids:
                    if i in got:
                        conj.append(r_cmp('eq', got[i].r, wants[i]))
                P.require('dependent-values', b_and(*conj), witness)
            else:
                P.cover('err')
                P.require('ok-when-acyclic-and-grounded', not solvable, witness)
        return h
    for n in range(1, 4):
        chk.harness(f'eval_dependencies:{n}-dependents', mk_deps(n), regions=['ok', 'err'], hash_order='all', step_budget=200000)
    for n in (2, 3):
        chk.harness(f'instance-evaluate:dependency-graphs/{n}-dependents', mk_deps(n, via_instance=True), regions=['ok', 'err'], hash_order='all', step_budget=400000)
    if chk.tier == 'quick':
        # 4 dependents: every DAG whose edges go from lower to higher id (64 graphs), every iteration order
        chk.harness('eval_dependencies:4-dependents-dags', mk_deps(4, dag_only=True), regions=['ok', 'err'], hash_order='all', step_budget=200000)
    else:
        for fe in itertools.product([0, 1], repeat=3):
            chk.harness(f'eval_dependencies:4-dependents/first-edges={fe}', mk_deps(4, first_edges=fe), regions=['ok'], hash_order='all', step_budget=200000)

    # ---------------------------------------------------------------- instance level
    def lin(P, pre, ids):
        terms = [(i, dom(P, f'{pre}_a{n}', 'positive')) for n, i in enumerate(ids)]
        k = dom(P, f'{pre}_k', 'positive')
        return chk.M.function('Linear', chk.M.linear(terms, k)), SymFn([([i], c) for i, c in terms] + [([], k)])

    def h_inst(P):
        chain = P.choose(2)
        quadobj = P.choose(2)
        if quadobj:
            q, k, l1 = dom(P, 'oq', 'positive'), dom(P, 'ok', 'positive'), dom(P, 'ol', 'positive')
            obj = (chk.M.function('Quadratic', chk.M.quadratic([(1, 2, q)], chk.M.linear([(1, l1)], k))), SymFn([([1, 2], q), ([1], l1), ([], k)]))
        else:
            obj = lin(P, 'o', [1, 2])
        # 'extra': two more variables (4, 5) that no function of the instance uses are replaced as well, 4 by a function of 5 and then 5 by a
        # function of 3: replaced variables that occur nowhere (or only inside another dependency) must still be reported
        extra = P.choose(2) if (not chain and not quadobj) else 0      # only with the plain variant: every further dependency multiplies the explored map orders
        spec = Inst(objective=obj, vars=[Var(1, 3), Var(2, 3), Var(3, 3)] + ([Var(4, 3), Var(5, 3)] if extra else []),
                    cons=[Con(11, LE, lin(P, 'g', [1, 3]))], removed=[Rem(Con(12, EQ, lin(P, 'r', [2, 1])))])
        inst = B.instance(spec)
        r1 = lin(P, 's1', [2, 3])
        r2 = lin(P, 's2', [3])
        r4 = lin(P, 's4', [5]) if extra else None
        r5 = lin(P, 's5', [3]) if extra else None
        # state values concrete (dyadic) so that the identities stay of degree 2 in the symbolic coefficients
        x2, x3 = [(fin(Fraction(3, 2)), fin(Fraction(-5, 4))), (fin(Fraction(0)), fin(Fraction(7, 8))), (fin(Fraction(-2)), fin(Fraction(0)))][P.choose(3)]
        reps_steps = [[(1, r1)]] + ([[(2, r2)]] if chain else []) + ([[(4, r4)], [(5, r5)]] if extra else [])
        given = [(3, x3)] + ([] if chain else [(2, x2)])

        def witness(model):
            idict = chk.conv.to_dict(B.instance(spec), MSGI, model)
            steps = [{str(k): chk.hexmsg(f[0], MSGF, model) for k, f in step} for step in reps_steps]
            sdict = {'entries': [(k, valconv.fv_to_float(v, model)) for k, v in given]}
            case = {'op': 'substitute_then_eval', 'instance': chk.hexdict(idict, MSGI), 'steps': steps, 'state': chk.hexdict(sdict, MSGS)}
            asg = dict(sdict['entries'])
            if chain:
                asg[2] = float(fn_eval(chk.conv.to_dict(r2[0], MSGF, model), {k: F(v) for k, v in asg.items()}))
            asg[1] = float(fn_eval(chk.conv.to_dict(r1[0], MSGF, model), {k: F(v) for k, v in asg.items()}))
            if extra:
                asg[5] = float(fn_eval(chk.conv.to_dict(r5[0], MSGF, model), {k: F(v) for k, v in asg.items()}))
                asg[4] = float(fn_eval(chk.conv.to_dict(r4[0], MSGF, model), {k: F(v) for k, v in asg.items()}))
            exp = c05.concrete_expected(idict, {'entries': list(asg.items())})

            def judge(res):
                if 'ok' not in res:
                    return exp is not None
                sol = chk.unhex(res['ok']['solution'], 'ommx.v1.Solution')
                return exp is None or not c05.solution_matches(sol, exp)
            return case, judge, f'substitute {steps} into {idict} then evaluate at {sdict}; expected state {asg}'
        try:
            for step in reps_steps:
                rmap = RMap('hash', False, [[k, deep_clone(f[0])] for k, f in step])
                r = P.it.run_body(sub_i, [ref_to(inst), rmap])
                if r.vname != 'Ok':
                    P.fail('substitute-ok', witness)
                    return
            res = P.it.run_body(ev_i, [ref_to(inst), ref_to(B.state(given))])
        except RustPanic:
            P.fail('no-panic', witness)
            return
        # implied full assignment
        asg = dict(given)
        if chain:
            asg[2] = FV('fin', r2[1].denote(lambda i: asg[i].r))
        asg[1] = FV('fin', r1[1].denote(lambda i: asg[i].r))
        if extra:
            asg[5] = FV('fin', r5[1].denote(lambda i: asg[i].r))
            asg[4] = FV('fin', r4[1].denote(lambda i: asg[i].r))
        exp = c05.expected(spec, list(asg.items()))
        if res.vname != 'Ok':
            P.fail('evaluate-ok', witness)
            return
        sol = rd.solution(res.f[0].f[0])
        tol = 64 * EPS * 2 ** 16

        def near(a, b):
            return within(a.r, b.r, tol)
        conj = [near(sol['objective'], exp['objective'])]
        for ec, (c, val, r_) in zip(sol['evaluated_constraints'], exp['cons']):
            conj += [ec['id'] == c.id, near(ec['value'], val)]
        rep = dict(sol['state'] or [])
        conj.append(sorted(rep) == sorted(asg))
        for k, v in asg.items():
            if k in rep:
                conj.append(near(rep[k], v))
        P.require('instance-substitution', b_and(*conj), witness)
    chk.harness('instance:substitute-then-evaluate', h_inst, hash_order='all')
    chk.validation('substitute', lambda c: validate(c, sub_f))


def validate(chk, sub_f):
    from .c01 import random_function_dict
    rng = chk.rng
    n = 60 if chk.tier == 'quick' else 500
    for t in range(n):
        fd = random_function_dict(rng, rng.choice(f_shapes('thorough')), idmax=2, K=8, shift=2)
        reps = {}
        for k in rng.sample([0, 1, 2], rng.randint(0, 2)):
            reps[k] = random_function_dict(rng, rng.choice(rep_shapes('thorough')), idmax=2, K=8, shift=2)
        for d in [fd] + list(reps.values()):
            if d['function'] and d['function'][0] == 'quadratic':
                from .c02 import dedup_quadratic
                dedup_quadratic(d['function'][1])
        case = {'op': 'substitute_function', 'f': chk.hexdict(fd, MSGF), 'replacements': {str(k): chk.hexdict(v, MSGF) for k, v in reps.items()}}
        fv = chk.conv.from_dict(fd, MSGF)
        rmap = RMap('hash', False, [[k, chk.conv.from_dict(v, MSGF)] for k, v in reps.items()])

        def py(it, fv=fv, rmap=rmap):
            r = it.run_body(sub_f, [ref_to(fv), ref_to(rmap)])
            if r.vname != 'Ok':
                return 'err'
            return {k: float(v) for k, v in canon_poly(fn_monomials(chk.conv.to_dict(r.f[0], MSGF))).items()}

        def nat(res):
            if 'ok' not in res:
                return res
            return {k: float(v) for k, v in canon_poly(fn_monomials(chk.unhex(res['ok']['f'], MSGF))).items()}
        chk.validate('Function::substitute', py, case, nat)


if __name__ == '__main__':
    main('C04', build)
