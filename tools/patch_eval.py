#!/usr/bin/env python3
"""usage: patch_eval.py <patch.diff> <label> [--all | --only C01,C02]

Applies a patch to /repo, works out which MIR bodies it changes (ignoring line-number shifts), runs the quick checks whose
evidence says they execute one of those bodies, reverts the patch and writes <label>.json with the exit codes.
Used to confirm that seeded defects are caught and that behaviour-preserving refactorings raise no alarm."""
import sys, os, re, json, subprocess, hashlib, time
sys.path.insert(0, '/verif')
from mirsym import mirparse, hx

SPAN = re.compile(r'(rust/ommx/src/[\w/.]+\.rs):\d+:\d+: \d+:\d+')


def norm_name(n):
    return SPAN.sub(r'\1', n)


def body_table(path):
    m = mirparse.load(path)
    t = {}
    for n, bs in m.bodies.items():
        for b in bs:
            key = norm_name(n) + '(' + ','.join(b.param_tys) + ')'
            t[key] = hashlib.sha256(SPAN.sub(r'\1', b.text).encode()).hexdigest()[:12]
    return t


def main():
    patch, label = sys.argv[1], sys.argv[2]
    opt = sys.argv[3] if len(sys.argv) > 3 else ''
    out = {'patch': patch, 'label': label}
    st = subprocess.run(['git', '-C', '/repo', 'status', '--porcelain'], capture_output=True, text=True).stdout.strip()
    if st:
        print('refusing: /repo has uncommitted changes'); sys.exit(3)
    base_mir, _, _ = hx.dump_mir()
    base = body_table(base_mir)
    r = subprocess.run(['git', '-C', '/repo', 'apply', patch])
    if r.returncode:
        print('patch does not apply'); sys.exit(3)
    try:
        new_mir, _, _ = hx.dump_mir()
        new = body_table(new_mir)
        changed = sorted(k for k in set(base) | set(new) if base.get(k) != new.get(k))
        out['changed_bodies'] = changed
        chg_names = {k.split('(')[0] for k in changed}
        ids = []
        if opt == '--all':
            ids = [f'C{i:02d}' for i in range(1, 21)]
        elif opt.startswith('--only'):
            ids = sys.argv[4].split(',')
        else:
            for i in range(1, 21):
                pid = f'C{i:02d}'
                try:
                    ev = json.load(open(f'/verif/evidence/{pid}.json'))
                    fe = ev['coverage']['functions_encoded']
                    fe = eval(fe) if isinstance(fe, str) else fe
                except Exception:
                    continue
                if {norm_name(n) for n in fe} & chg_names:
                    ids.append(pid)
        out['checks'] = {}
        for pid in ids:
            t = time.time()
            p = subprocess.run(['python3-vt', 'run_check.py', pid, '--tier', 'quick'], cwd='/verif', capture_output=True, text=True)
            lines = [l for l in p.stdout.splitlines() if l.startswith(('VIOLATION', 'KNOWN-FINDING')) or 'INCONCLUSIVE' in l]
            out['checks'][pid] = {'exit': p.returncode, 'wall_s': round(time.time() - t, 1), 'lines': [l[:400] for l in lines[:6]]}
            print(pid, 'exit', p.returncode, round(time.time() - t, 1), 's', flush=True)
            for l in lines[:3]:
                print('   ', l[:300])
    finally:
        subprocess.run(['git', '-C', '/repo', 'checkout', '--', '.'])
    os.makedirs('/verif/.cache/patch_eval', exist_ok=True)
    json.dump(out, open(f'/verif/.cache/patch_eval/{label}.json', 'w'), indent=1)
    print('changed bodies:', len(out.get('changed_bodies', [])), 'checks run:', list(out.get('checks', {})))


if __name__ == '__main__':
    main()
