#!/bin/bash
# usage: seed_eval.sh <prop id lower, e.g. c01> [seed dir] [worktree]
# confirms a seeded change (tests pass with it, demo fails with / passes without) and runs our check against it
id=$1; SD=${2:-/tmp/seed-$id}; WT=${3:-/tmp/wt-$id}; ID=$(echo $id | tr a-z A-Z | cut -c1-3)
out=/verif/seeded/$ID${4:-}
mkdir -p $out
cp $SD/patch.diff $out/patch.diff; cp $SD/demo.rs $out/demo.rs; cp $SD/notes.md $out/notes.md 2>/dev/null
export CARGO_NET_OFFLINE=true CARGO_TARGET_DIR=$WT/target-seed
cd $WT && git checkout -q -- . && git clean -fdq rust/ommx/tests 2>/dev/null
git apply $out/patch.diff || { echo "patch does not apply"; exit 3; }
cd rust/ommx
lib_with=$(cargo test --offline --lib 2>&1 | grep "^test result" | head -1)
mkdir -p tests && cp $out/demo.rs tests/demo_seed.rs
demo_with=$(cargo test --offline --test demo_seed 2>&1 | grep "^test result" | head -1)
cd $WT && git checkout -q -- . 
cd rust/ommx
demo_without=$(cargo test --offline --test demo_seed 2>&1 | grep "^test result" | head -1)
rm -rf tests
# our check against the change
cd /repo && git apply $out/patch.diff
cd /verif && python3-vt run_check.py $ID --tier quick > $out/check_quick.log 2>&1; rc=$?
cd /repo && git checkout -q -- .
python3 - <<PY
import json
json.dump({'property':'$ID','lib_tests_with_change':'''$lib_with''','demo_with_change':'''$demo_with''','demo_without_change':'''$demo_without''',
 'our_check':'python3-vt run_check.py $ID --tier quick','our_check_exit':$rc,
 'violation_lines':[l.strip() for l in open('$out/check_quick.log') if l.startswith('VIOLATION')][:3]}, open('$out/meta.json','w'), indent=1)
print(open('$out/meta.json').read())
PY
