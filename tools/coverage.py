#!/usr/bin/env python3
"""Which MIR bodies of rust/ommx does no check execute?

Reads evidence/*.json (functions_encoded) and the current MIR dump, groups the bodies by source file
(taken from the first span in the body's text) and prints, per file, the non-test bodies that no
check's last run executed. Blind-spot finder only; it decides nothing.

usage: python3-vt tools/coverage.py [file-substring ...]
"""
import sys, os, re, json, glob
sys.path.insert(0, os.path.join(os.path.dirname(__file__), '..'))
from mirsym import mirparse

ROOT = os.path.join(os.path.dirname(__file__), '..')
mir = mirparse.load(os.path.join(ROOT, '.cache', 'ommx.mir'))
enc = {}
for p in sorted(glob.glob(os.path.join(ROOT, 'evidence', 'C*.json'))):
    e = json.load(open(p))
    for fn in e.get('coverage', {}).get('functions_encoded', {}):
        enc.setdefault(fn, []).append(e['property_id'])

byfile = {}
for name, bs in mir.bodies.items():
    for b in bs:
        m = re.search(r'(rust/ommx/src/[\w/\.]+\.rs):(\d+):', b.text)
        f = m.group(1) if m else '?'
        if '::tests::' in name or '::test::' in name or name.startswith('random::') or 'arbitrary' in name.lower():
            continue
        byfile.setdefault(f, []).append((name, b))

MINL = int(os.environ.get('MINLINES', '0'))
flt = sys.argv[1:]
tot = cov = 0
for f in sorted(byfile):
    if flt and not any(x in f for x in flt):
        continue
    items = byfile[f]
    c = [n for n, b in items if n in enc]
    tot += len(items); cov += len(c)
    print(f'== {f}: {len(c)}/{len(items)} bodies executed by some check')
    for n, b in sorted(items, key=lambda x: x[0]):
        if n not in enc:
            nl = b.text.count('\n')
            if nl < MINL or '{closure' in n and MINL:
                continue
            print(f'   -- {n}  ({nl} lines)')
print(f'total {cov}/{tot}')
