#!/bin/bash
# usage: seed_eval_alt.sh <prop id lower, e.g. c01> <seed dir> <worktree> <suffix>
# Like seed_eval.sh, but our check runs against the scratch worktree (VERIF_ALT) instead of /repo, so several seeded changes can be
# evaluated at the same time and while other checks use /repo. The registered commands never use VERIF_ALT.
id=$1; SD=$2; WT=$3; ID=$(echo $id | tr a-z A-Z | cut -c1-3)
out=/verif/seeded/$ID${4:-}
mkdir -p $out
cp $SD/patch.diff $out/patch.diff; cp $SD/demo.rs $out/demo.rs; cp $SD/notes.md $out/notes.md 2>/dev/null
export CARGO_NET_OFFLINE=true
cd $WT && git checkout -q -- . && rm -rf rust/ommx/tests
git apply $out/patch.diff || { echo "patch does not apply"; exit 3; }
cd rust/ommx
lib_with=$(CARGO_TARGET_DIR=$WT/target-seed cargo test --offline --lib 2>&1 | grep "^test result" | head -1)
mkdir -p tests && cp $out/demo.rs tests/demo_seed.rs
demo_with=$(CARGO_TARGET_DIR=$WT/target-seed cargo test --offline --test demo_seed 2>&1 | grep "^test result" | head -1)
cd $WT && git checkout -q -- .
cd rust/ommx
demo_without=$(CARGO_TARGET_DIR=$WT/target-seed cargo test --offline --test demo_seed 2>&1 | grep "^test result" | head -1)
rm -rf tests
cd $WT && git apply $out/patch.diff
cd /verif && VERIF_ALT=$WT python3-vt run_check.py $ID --tier quick > $out/check_quick.log 2>&1; rc=$?
cd $WT && git checkout -q -- .
python3 - <<PY
import json
json.dump({'property':'$ID','lib_tests_with_change':'''$lib_with''','demo_with_change':'''$demo_with''','demo_without_change':'''$demo_without''',
 'our_check':'VERIF_ALT=<worktree with the patch applied> python3-vt run_check.py $ID --tier quick  (same check as the registered command, pointed at the scratch worktree)','our_check_exit':$rc,
 'violation_lines':[l.strip() for l in open('$out/check_quick.log') if l.startswith('VIOLATION')][:3]}, open('$out/meta.json','w'), indent=1)
print(open('$out/meta.json').read())
PY
