#!/usr/bin/env python3-vt
"""re-run a stored counterexample natively: replay_case.py evidence/replays/<id>-<hash>.json"""
import sys, json, os
sys.path.insert(0, os.path.dirname(os.path.abspath(__file__)))
from checks.common import Replay
rec = json.load(open(sys.argv[1]))
r = Replay()
print(json.dumps({'description': rec.get('description'), 'stored_native_result': rec.get('native_result'), 'native_result_now': r.run(rec['case'])}, indent=1))
r.close()
